package flaggedproducer

// Demonstration for the C25 finding (copy into kvdb/flaggedproducer to run):
// flaggedStore.modified set the in-memory Dirty flag BEFORE the dirty mark was written. When that write fails
// (a transient I/O error), the store stays "dirty" in memory only: later writes skip the mark, reach the disk,
// and after a crash the restart reports the old flush ID as clean although the database holds newer data.

import (
	"bytes"
	"errors"
	"testing"

	"github.com/Fantom-foundation/lachesis-base/kvdb"
	"github.com/Fantom-foundation/lachesis-base/kvdb/memorydb"
)

// failOnce fails the next Put when armed.
type failOnce struct {
	kvdb.Store
	armed *bool
}

func (s failOnce) Put(k, v []byte) error {
	if *s.armed {
		*s.armed = false
		return errors.New("transient write error")
	}
	return s.Store.Put(k, v)
}

type failingBackend struct {
	kvdb.IterableDBProducer
	armed *bool
}

func (b failingBackend) OpenDB(name string) (kvdb.Store, error) {
	db, err := b.IterableDBProducer.OpenDB(name)
	if err != nil {
		return nil, err
	}
	return failOnce{db, b.armed}, nil
}

func TestVerifC25DirtyFlagDemo(t *testing.T) {
	mem := memorydb.NewProducer("")
	armed := false
	flushKey := []byte("flushID")

	p := Wrap(failingBackend{mem, &armed}, flushKey)
	db, err := p.OpenDB("db")
	if err != nil {
		t.Fatal(err)
	}
	if err := db.Put([]byte("k0"), []byte("v0")); err != nil {
		t.Fatal(err)
	}
	if err := p.Flush([]byte("id1")); err != nil {
		t.Fatal(err)
	}
	// a transient error hits the write of the dirty mark
	armed = true
	if err := db.Put([]byte("k1"), []byte("v1")); err == nil {
		t.Fatal("expected the write error")
	}
	// the next write succeeds
	if err := db.Put([]byte("k2"), []byte("v2")); err != nil {
		t.Fatal(err)
	}
	// crash here; restart over the surviving databases
	p2 := Wrap(mem, flushKey)
	id, err := p2.Initialize([]string{"db"}, nil)
	if err != nil {
		return // dirty / unsynchronised state reported: fine
	}
	db2, _ := p2.OpenDB("db")
	has, _ := db2.Has([]byte("k2"))
	if has {
		t.Fatalf("restart reports clean flush ID %q but the database holds k2, written after that flush (mark %v)", id, bytes.TrimSpace(id))
	}
}
