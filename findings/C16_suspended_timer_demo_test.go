package itemsfetcher

// Demonstration for property C16 ("every announced item that stays interesting and unreceived ... is requested within
// a small multiple of the arrive timeout after its announcement or after the fetcher stops being suspended"):
// an item announced WHILE the fetcher is suspended is never requested after the suspension ends, unless another
// announcement happens to arrive: the fetch timer is not re-armed by processNotification when nothing is being
// fetched yet, and the timer branch only re-arms itself.
// Run: copy into gossip/itemsfetcher and `go test -run TestC16SuspendedTimerDemo`.

import (
	"sync"
	"sync/atomic"
	"testing"
	"time"
)

func TestC16SuspendedTimerDemo(t *testing.T) {
	cfg := Config{
		ForgetTimeout:       10 * time.Second,
		ArriveTimeout:       40 * time.Millisecond,
		GatherSlack:         4 * time.Millisecond,
		HashLimit:           1000,
		MaxBatch:            16,
		MaxParallelRequests: 4,
		MaxQueuedBatches:    8,
	}
	var suspended int32 = 1
	var mu sync.Mutex
	requested := map[interface{}]int{}
	f := New(cfg, Callback{
		OnlyInterested: func(ids []interface{}) []interface{} { return ids },
		Suspend:        func() bool { return atomic.LoadInt32(&suspended) == 1 },
	})
	f.Start()
	defer f.Stop()
	time.Sleep(20 * time.Millisecond) // let the initial timer tick pass
	err := f.NotifyAnnounces("peer", []interface{}{"item"}, time.Now(), func(ids []interface{}) error {
		mu.Lock()
		defer mu.Unlock()
		for _, id := range ids {
			requested[id]++
		}
		return nil
	})
	if err != nil {
		t.Fatal(err)
	}
	time.Sleep(20 * time.Millisecond)
	atomic.StoreInt32(&suspended, 0) // the suspension ends; the item stays interesting, unreceived, and is far younger than ForgetTimeout
	time.Sleep(25 * cfg.ArriveTimeout) // 25 arrive timeouts = 1 s
	mu.Lock()
	n := requested["item"]
	mu.Unlock()
	if n == 0 {
		t.Fatalf("the item announced during the suspension was not requested within 25 arrive timeouts after the suspension ended")
	}
}
