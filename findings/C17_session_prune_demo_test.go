package basestreamseeder

// Demonstration for property C17 ("A session stays resumable until its peer unregisters or opens a new session while
// already holding three"): a peer that holds three sessions and merely CONTINUES one of them loses its oldest session;
// the next request of that oldest session is served from the session start again (repeated items).
// Run: copy into gossip/basestream/basestreamseeder and `go test -run TestC17SessionPruneDemo`.

import (
	"sync"
	"testing"
	"time"

	"github.com/Fantom-foundation/lachesis-base/gossip/basestream"
)

type demoLoc int

func (l demoLoc) Compare(b basestream.Locator) int { return int(l) - int(b.(demoLoc)) }
func (l demoLoc) Inc() basestream.Locator          { return l + 1 }

type demoPayload struct{ items *[]int }

func (p demoPayload) AddEvent(i int)    { *p.items = append(*p.items, i) }
func (p demoPayload) Len() int          { return len(*p.items) }
func (p demoPayload) TotalSize() uint64 { return uint64(len(*p.items)) }
func (p demoPayload) TotalMemSize() int { return len(*p.items) }

func TestC17SessionPruneDemo(t *testing.T) {
	cfg := Config{SenderThreads: 1, MaxSenderTasks: 16, MaxPendingResponsesSize: 1 << 20, MaxResponsePayloadNum: 100, MaxResponsePayloadSize: 1 << 20, MaxResponseChunks: 4}
	seeder := New(cfg, Callbacks{
		ForEachItem: func(start basestream.Locator, _ basestream.RequestType, onKey func(basestream.Locator) bool, onAppended func(basestream.Payload) bool) basestream.Payload {
			res := demoPayload{items: &[]int{}}
			for i := int(start.(demoLoc)); i < 100; i++ {
				if !onKey(demoLoc(i)) {
					break
				}
				res.AddEvent(i)
				if !onAppended(res) {
					break
				}
			}
			return res
		},
	})
	var mu sync.Mutex
	got := map[uint32][][]int{}
	n := 0
	peer := Peer{ID: "p", Misbehaviour: func(error) {}, SendChunk: func(r basestream.Response) error {
		mu.Lock()
		defer mu.Unlock()
		got[r.SessionID] = append(got[r.SessionID], append([]int{}, *r.Payload.(demoPayload).items...))
		n++
		return nil
	}}
	seeder.Start()
	defer seeder.Stop()
	req := func(sid uint32) {
		err, perr := seeder.NotifyRequestReceived(peer, basestream.Request{
			Session:        basestream.Session{ID: sid, Start: demoLoc(0), Stop: demoLoc(100)},
			MaxPayloadNum:  2,
			MaxPayloadSize: 1000,
			Type:           0,
			MaxChunks:      1,
		})
		if err != nil || perr != nil {
			t.Fatal(err, perr)
		}
	}
	// three sessions are opened (one chunk of two items each), then session 3 is continued, then session 1
	for _, sid := range []uint32{1, 2, 3, 3, 1} {
		req(sid)
	}
	for i := 0; i < 200; i++ {
		mu.Lock()
		k := n
		mu.Unlock()
		if k >= 5 {
			break
		}
		time.Sleep(10 * time.Millisecond)
	}
	mu.Lock()
	defer mu.Unlock()
	if len(got[1]) != 2 {
		t.Fatalf("session 1: %d responses", len(got[1]))
	}
	first, second := got[1][0], got[1][1]
	t.Logf("session 1 responses: %v then %v", first, second)
	if len(second) > 0 && second[0] <= first[len(first)-1] {
		t.Fatalf("session 1 was not resumed: its second response %v repeats items of the first %v, although the peer only continued sessions while holding three", second, first)
	}
}
