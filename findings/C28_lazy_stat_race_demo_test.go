package flushable

// Demonstration for property C28 (second finding): Flushable.Stat and Flushable.Compact read the underlying-store
// pointer without the store's lock, while a lazily opened store (LazyFlushable, the kind SyncedPool hands out)
// replaces that pointer under the write lock on its first InitUnderlyingDb / Flush.
// Run with the race detector: copy into kvdb/flushable and `go test -race -run TestC28LazyStatRaceDemo`.

import (
	"sync"
	"testing"

	"github.com/Fantom-foundation/lachesis-base/kvdb"
	"github.com/Fantom-foundation/lachesis-base/kvdb/devnulldb"
)

func TestC28LazyStatRaceDemo(t *testing.T) {
	db := NewLazy(func() (kvdb.Store, error) { return devnulldb.New(), nil }, func() {})
	var wg sync.WaitGroup
	wg.Add(2)
	go func() {
		defer wg.Done()
		for i := 0; i < 200; i++ {
			_, _ = db.Stat("x")
			_ = db.Compact(nil, nil)
		}
	}()
	go func() {
		defer wg.Done()
		_, _ = db.InitUnderlyingDb()
	}()
	wg.Wait()
}
