package flushable

// Demonstration for property C28 (fourth finding): SyncedPool.Initialize registers the databases (getDB writes the
// pool's table of wrapped databases) WITHOUT the pool's mutex, which every other operation of the pool takes: an
// Initialize next to an OpenDB is a concurrent map write.
// Run with the race detector: copy into kvdb/flushable and `go test -race -run TestC28PoolInitializeRaceDemo`.

import (
	"strconv"
	"sync"
	"testing"

	"github.com/Fantom-foundation/lachesis-base/kvdb"
	"github.com/Fantom-foundation/lachesis-base/kvdb/devnulldb"
)

type c28pProducer struct{}

func (c28pProducer) OpenDB(name string) (kvdb.Store, error) { return devnulldb.New(), nil }

func TestC28PoolInitializeRaceDemo(t *testing.T) {
	pool := NewSyncedPool(c28pProducer{}, []byte("flag"))
	names := make([]string, 50)
	for i := range names {
		names[i] = "db" + strconv.Itoa(i)
	}
	var wg sync.WaitGroup
	wg.Add(2)
	go func() {
		defer wg.Done()
		_, _ = pool.Initialize(names, nil)
	}()
	go func() {
		defer wg.Done()
		for i := 0; i < 50; i++ {
			_, _ = pool.OpenDB("x" + strconv.Itoa(i))
		}
	}()
	wg.Wait()
}
