package abft

// Demonstration for the C04 finding: uniqueID.sample left-aligns the minimal big-endian bytes of the
// counter, so counter values 1 and 256 (and 65536, ...) produce the same temporary event ID.
import (
	"math/big"
	"testing"
)

func TestVerifC04SampleDemo(t *testing.T) {
	u := uniqueID{new(big.Int)}
	seen := map[[24]byte]int{}
	for i := 1; i <= 300; i++ {
		id := u.sample()
		if j, ok := seen[id]; ok {
			t.Fatalf("sample #%d equals sample #%d: %x", i, j, id)
		}
		seen[id] = i
	}
}
