package leveldb

// Demonstration for the C23 finding (copy into kvdb/leveldb to run):
// the same call sequence gives different contents on the memory and the LevelDB backend,
// because leveldb.bytesPrefixRange (and pebble's) appended the start key to the caller's prefix slice
// and thereby wrote into the spare capacity of the caller's buffer.

import (
	"testing"

	"github.com/Fantom-foundation/lachesis-base/kvdb"
	"github.com/Fantom-foundation/lachesis-base/kvdb/memorydb"
)

func TestVerifC23PrefixBufferDemo(t *testing.T) {
	run := func(db kvdb.Store) []string {
		key := []byte("ab12") // one buffer: the prefix "ab" is its first two bytes
		it := db.NewIterator(key[:2], []byte("zz"))
		it.Release()
		if err := db.Put(key, []byte{1}); err != nil { // the caller still means key "ab12"
			t.Fatal(err)
		}
		var keys []string
		all := db.NewIterator(nil, nil)
		defer all.Release()
		for all.Next() {
			keys = append(keys, string(all.Key()))
		}
		return keys
	}
	mem := run(memorydb.New())
	ldb, err := New(t.TempDir(), 16, 16, nil, nil)
	if err != nil {
		t.Fatal(err)
	}
	defer ldb.Close()
	lvl := run(ldb)
	if len(mem) != 1 || mem[0] != "ab12" {
		t.Fatalf("memory backend: %q", mem)
	}
	if len(lvl) != 1 || lvl[0] != "ab12" {
		t.Fatalf("leveldb backend stored %q, memory backend stored %q", lvl, mem)
	}
}
