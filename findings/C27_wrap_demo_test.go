package cachedproducer

// Demonstration for the C27 finding: Wrap does not allocate refCounter, so the first OpenDB
// through the wrapper panics with "assignment to entry in nil map".
import (
	"testing"

	"github.com/Fantom-foundation/lachesis-base/kvdb/memorydb"
)

func TestVerifC27Demo(t *testing.T) {
	p := Wrap(memorydb.NewProducer(""))
	db1, err := p.OpenDB("x")
	if err != nil {
		t.Fatal(err)
	}
	db2, _ := p.OpenDB("x")
	if db1 != db2 {
		t.Fatal("second open returned a different store")
	}
	if err := db1.Close(); err != nil {
		t.Fatal(err)
	}
	if err := db2.Close(); err != nil {
		t.Fatal(err)
	}
	if err := db2.Close(); err == nil {
		t.Fatal("closing more often than opening must be an error")
	}
}
