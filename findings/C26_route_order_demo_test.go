package multidb

// Demonstration for the C26 finding (copy into kvdb/multidb to run):
// NewProducer compiled the pattern routes in map-iteration order, and RouteOf takes the first pattern that accepts a
// request. With two patterns that both accept a request, the same routing table routed the request differently from
// one construction (one process start) to the next.

import (
	"testing"

	"github.com/Fantom-foundation/lachesis-base/kvdb"
)

func TestVerifC26RouteOrderDemo(t *testing.T) {
	seen := map[Route]int{}
	for i := 0; i < 300; i++ {
		p, err := NewProducer(map[TypeName]kvdb.FullDBProducer{}, map[string]Route{
			"":          {Type: "a", Name: "main"},
			"gossip-%d": {Type: "a", Name: "epoch-%d"},
			"gossip-%s": {Type: "b", Name: "other-%s"},
		}, []byte("k"))
		if err != nil {
			t.Fatal(err)
		}
		seen[p.RouteOf("gossip-5")]++
	}
	if len(seen) != 1 {
		t.Fatalf("the same routing table routes \"gossip-5\" differently from construction to construction: %v", seen)
	}
}
