package dagordering

// Demonstration for the C14 finding (place in gossip/dagordering): events A, B(parent A), C(parents A, B) arrive in
// the order B, C, A and Process(C) fails.  On the defective code Process(C) is called twice, the second time after
// Released(C) was reported.
import (
	"errors"
	"testing"

	"github.com/Fantom-foundation/lachesis-base/hash"
	"github.com/Fantom-foundation/lachesis-base/inter/dag"
	"github.com/Fantom-foundation/lachesis-base/inter/dag/tdag"
	"github.com/Fantom-foundation/lachesis-base/inter/idx"
)

func TestVerifC14PushEventDemo(t *testing.T) {
	mk := func(name string, seq idx.Event, parents ...hash.Event) *tdag.TestEvent {
		e := &tdag.TestEvent{}
		e.SetSeq(seq)
		e.SetCreator(idx.ValidatorID(seq))
		e.SetParents(parents)
		e.SetEpoch(1)
		e.SetLamport(idx.Lamport(seq))
		e.Name = name
		id := [24]byte{}
		copy(id[:], name)
		e.SetID(id)
		return e
	}
	a := mk("A", 1)
	b := mk("B", 2, a.ID())
	c := mk("C", 3, a.ID(), b.ID())

	connected := map[hash.Event]dag.Event{}
	processCalls := map[hash.Event]int{}
	released := map[hash.Event]int{}
	buf := New(dag.Metric{Num: 100, Size: 1 << 30}, Callback{
		Process: func(e dag.Event) error {
			processCalls[e.ID()]++
			if released[e.ID()] > 0 {
				t.Errorf("Process(%s) called after Released(%s)", e.(*tdag.TestEvent).Name, e.(*tdag.TestEvent).Name)
			}
			if e.ID() == c.ID() {
				return errors.New("processing of C fails")
			}
			connected[e.ID()] = e
			return nil
		},
		Released: func(e dag.Event, peer string, err error) { released[e.ID()]++ },
		Get:      func(id hash.Event) dag.Event { if e, ok := connected[id]; ok { return e }; return nil },
		Exists:   func(id hash.Event) bool { _, ok := connected[id]; return ok },
	})
	buf.PushEvent(b, "")
	buf.PushEvent(c, "")
	buf.PushEvent(a, "")
	if processCalls[c.ID()] != 1 {
		t.Errorf("Process(C) was called %d times for one pushed copy", processCalls[c.ID()])
	}
	for _, e := range []*tdag.TestEvent{a, b, c} {
		if released[e.ID()] != 1 {
			t.Errorf("Released(%s) reported %d times", e.Name, released[e.ID()])
		}
	}
}
