package basestreamleecher

// Demonstration for the C18 finding (UnregisterPeer started a new session with the peer
// being unregistered). Run:  go test -overlay <this file as zz_demo_test.go> -run TestVerifC18Demo
import (
	"testing"
	"time"
)

func TestVerifC18Demo(t *testing.T) {
	ongoing, speer := false, ""
	var d *BaseLeecher
	d = New(time.Hour, Callbacks{
		SelectSessionPeerCandidates: func() []string {
			var res []string
			for p := range d.Peers {
				res = append(res, p)
			}
			return res
		},
		ShouldTerminateSession: func() bool { return false },
		StartSession:           func(c []string) { ongoing, speer = true, c[0] },
		TerminateSession:       func() { ongoing = false },
		OngoingSession:         func() bool { return ongoing },
		OngoingSessionPeer:     func() string { return speer },
	})
	_ = d.RegisterPeer("a")
	d.Routine()
	if !ongoing || speer != "a" {
		t.Fatal("setup: expected a session with a")
	}
	_ = d.UnregisterPeer("a")
	if ongoing && speer == "a" {
		t.Fatalf("session with unregistered peer %q is running", speer)
	}
}
