package flushable

// Demonstration for property C28 ("the flushable store ... can be used from many goroutines at once without data
// races"): NotFlushedPairs() and NotFlushedSizeEst() read the overlay tree and the size estimate without taking the
// store's lock, while Put/Delete/Flush/DropNotFlushed modify them under the write lock.
// Run with the race detector: copy into kvdb/flushable and `go test -race -run TestC28FlushableRaceDemo`.

import (
	"sync"
	"testing"

	"github.com/Fantom-foundation/lachesis-base/kvdb/devnulldb"
)

func TestC28FlushableRaceDemo(t *testing.T) {
	db := Wrap(devnulldb.New())
	var wg sync.WaitGroup
	wg.Add(2)
	go func() {
		defer wg.Done()
		for i := 0; i < 2000; i++ {
			_ = db.Put([]byte{byte(i), byte(i >> 8)}, []byte{1})
			if i%100 == 0 {
				_ = db.Flush()
			}
		}
	}()
	sum := 0
	go func() {
		defer wg.Done()
		for i := 0; i < 2000; i++ {
			sum += db.NotFlushedPairs() + db.NotFlushedSizeEst()
		}
	}()
	wg.Wait()
	_ = sum
}
