package flushable

// Demonstration for property C28 (fifth finding): SyncedPool.Initialize is TWO critical sections -- it registers and
// opens the named databases under the pool's mutex, releases the mutex, and checkDBsSynced takes it again to compare
// the flush marks. A Flush that gets the mutex in between marks the databases that the first half has just opened, so
// Initialize on a fresh producer answers with that flush ID. No sequential order of the operations gives this answer:
// a Flush before Initialize marks nothing (the pool is still empty), a Flush after it cannot change its answer, so in
// every sequential history Initialize answers (nil, nil) -- no database carries a mark when it looks. An answer with
// a flush ID is a history that is not equivalent to any sequential one.
//
// The window is a few instructions wide, so the demonstration repeats the experiment (fresh pool, one Initialize next
// to four goroutines that keep flushing) until it is hit; on the 16-core sandbox that took some hundreds of trials
// (tens of milliseconds). With Initialize in one critical section the test runs all trials and passes.
// Copy into kvdb/flushable and run `go test -run TestC28PoolInitializeAtomicDemo`.

import (
	"sync"
	"sync/atomic"
	"testing"

	"github.com/Fantom-foundation/lachesis-base/kvdb"
	"github.com/Fantom-foundation/lachesis-base/kvdb/devnulldb"
)

type c28aProducer struct{}

// an in-memory store: writes stay in the buffer of the wrapper
func (c28aProducer) OpenDB(name string) (kvdb.Store, error) { return Wrap(devnulldb.New()), nil }

func TestC28PoolInitializeAtomicDemo(t *testing.T) {
	for trial := 0; trial < 100000; trial++ {
		pool := NewSyncedPool(c28aProducer{}, []byte("flag"))
		var wg sync.WaitGroup
		var done int32
		for k := 0; k < 4; k++ {
			wg.Add(1)
			go func() {
				defer wg.Done()
				for atomic.LoadInt32(&done) == 0 {
					_ = pool.Flush([]byte("id1"))
				}
			}()
		}
		got, gotErr := pool.Initialize([]string{"a"}, nil)
		atomic.StoreInt32(&done, 1)
		wg.Wait()
		if gotErr != nil || got != nil {
			t.Fatalf("trial %d: Initialize on a fresh database next to concurrent Flush calls answered (%x, %v); in every sequential order of these operations it answers (nil, nil)", trial, got, gotErr)
		}
	}
}
