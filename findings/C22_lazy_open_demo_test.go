package flushable

// Demonstration for the C22 finding (copy into kvdb/flushable to run):
// LazyFlushable.initUnderlyingDb (and Flush) assigned the result of the producer call to w.underlying BEFORE
// checking the error. After one failed attempt to open the database the store holds a nil underlying store and no
// longer notices that it was never opened: the next Flush does not write the unflushed pairs to the database but
// crashes with a nil dereference.

import (
	"errors"
	"testing"

	"github.com/Fantom-foundation/lachesis-base/kvdb"
	"github.com/Fantom-foundation/lachesis-base/kvdb/devnulldb"
)

func TestVerifC22LazyOpenDemo(t *testing.T) {
	real := Wrap(devnulldb.New()) // an in-memory store (memorydb itself would be an import cycle here)
	fail := true
	w := NewLazy(func() (kvdb.Store, error) {
		if fail {
			fail = false
			return nil, errors.New("transient open error")
		}
		return real, nil
	}, nil)

	if err := w.Put([]byte("k"), []byte("v")); err != nil {
		t.Fatal(err)
	}
	if err := w.Flush(); err == nil {
		t.Fatal("expected the open error")
	}
	// the unflushed pair is still there; flushing again must write it to the (now openable) database
	func() {
		defer func() {
			if r := recover(); r != nil {
				t.Fatalf("second Flush panicked instead of flushing: %v", r)
			}
		}()
		if err := w.Flush(); err != nil {
			t.Fatalf("second Flush: %v", err)
		}
	}()
	v, err := real.Get([]byte("k"))
	if err != nil || string(v) != "v" {
		t.Fatalf("after a successful Flush the database must hold the pair, got %q, %v", v, err)
	}
}
