package flushable

// Demonstration for property C28 (third finding): SyncedPool.GetUnderlying opens the real database of a lazily opened
// store through the UNLOCKED helper initUnderlyingDb while holding only the pool's mutex, so it replaces the store's
// underlying-store pointers without the store's lock -- racing with any reader of that store (Get, Has, iterators),
// which read the pointer under the store's read lock.
// Run with the race detector: copy into kvdb/flushable and `go test -race -run TestC28GetUnderlyingRaceDemo`.

import (
	"sync"
	"testing"

	"github.com/Fantom-foundation/lachesis-base/kvdb"
	"github.com/Fantom-foundation/lachesis-base/kvdb/devnulldb"
)

type c28Producer struct{}

func (c28Producer) OpenDB(name string) (kvdb.Store, error) { return devnulldb.New(), nil }

func TestC28GetUnderlyingRaceDemo(t *testing.T) {
	pool := NewSyncedPool(c28Producer{}, []byte("flag"))
	db, err := pool.OpenDB("a")
	if err != nil {
		t.Fatal(err)
	}
	var wg sync.WaitGroup
	wg.Add(2)
	go func() {
		defer wg.Done()
		for i := 0; i < 500; i++ {
			_, _ = db.Get([]byte{byte(i)})
		}
	}()
	go func() {
		defer wg.Done()
		_, _ = pool.GetUnderlying("a")
	}()
	wg.Wait()
}
