#!/bin/bash
# usage: prep_seed.sh <id>   -- scratch worktree (contract files removed) + prompt for a fresh seeding agent,
# under $SEEDROOT (default /tmp/seeds2). The agent gets the property text only (nothing from /verif).
id=$1; root=${SEEDROOT:-/tmp/seeds2}; d=$root/$id
mkdir -p $d/out
git -C /repo worktree add --detach $d/wt HEAD -q || exit 1
( cd $d/wt && find . -name verif_contracts.go -delete && git -c user.name=x -c user.email=x@x commit -qam "scratch" )
python3 - "$id" "$d" <<'P'
import json, sys, glob
pid, d = sys.argv[1], sys.argv[2]
prop = None
for l in open('/verif/properties.jsonl'):
    p = json.loads(l)
    if p['id'] == pid: prop = p
prev = []
for m in sorted(glob.glob(f'/verif/seeded/{pid}*/meta.json')):
    prev.append('"' + json.load(open(m)).get('what', '')[:320].replace('\n', ' ') + '"')
files = ', '.join(prop['anchors']['files'])
stmt = prop.get('statement') or prop.get('description')
notrep = ''
if prev:
    notrep = " Different changes were already made by somebody else and must NOT be repeated: " + '; '.join(prev) + " -- choose a different function or a different aspect of the property."
txt = f'''You are helping to evaluate a verification tool by writing a realistic, subtle bug ("seeded change") for a Go library.

Repository: a scratch git worktree of lachesis-base (Go library implementing Fantom's Lachesis aBFT consensus) at {d}/wt . Work ONLY inside that directory and {d}/out . Do not read or touch /repo, /verif or any other directory. Never use `git stash` (it is shared between worktrees). Do not commit.

Every shell call must start with: export GOFLAGS=-mod=mod GOPROXY=off GOSUMDB=off GOTOOLCHAIN=local   (there is no network).

Property {pid} — "{prop['title']}":
{stmt}

Relevant files: {files}

Task: make ONE small change to the non-test library code (no changes to *_test.go files, go.mod, or build files) that BREAKS this property, while
 (a) the whole repository still compiles: `go build ./...`,
 (b) all existing tests still pass: run `go test -vet=off -count=1 ./...` in the worktree (takes a few minutes; at least run the packages touched and every package that imports them, and preferably everything),
 (c) the breakage needs something specific to manifest — a particular multi-step sequence of operations, an unusual input (boundary value, overflow, empty/nil, particular byte pattern), a fault at a particular point, or two cooperating code sites that each look fine alone — NOT something that ordinary use would expose at once. The change should look like a plausible refactoring, optimisation or "simplification" a developer could make, not sabotage.
Prefer changing the functions that implement the mechanism of the property (the files above).{notrep}

Then write a demonstration: a Go test file (package-internal test, i.e. same package name as the directory it will be copied to, a single file with a single test function named TestSeed{pid}) that FAILS with your change and PASSES on the unmodified code. Verify both yourself: run it with your change (must fail), then revert your change temporarily with `git apply -R` of your patch (must pass), then re-apply.

Deliverables in {d}/out/ :
 - patch.diff : output of `git diff` in the worktree (only your library change, NOT the demo test; remove the demo test file from the worktree before producing the diff, or keep it untracked and use plain `git diff`),
 - demo_test.go : the demonstration test file,
 - meta.json : {{"property": "{pid}", "what": "<what was changed and why it breaks the property>", "needs": "<what is needed for the breakage to manifest>", "ran": "<the commands you ran and their results>", "demo_dir": "<directory relative to the repo root where demo_test.go must be copied to run, e.g. kvdb/flushable>"}}
Finish by reporting in a few lines what you changed. Leave the worktree with your change applied.'''
open(d + '/prompt.txt', 'w').write(txt)
print('prepared', pid)
P
