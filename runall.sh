#!/bin/sh
# runs every claim (quick tier) and prints one line per property; exit 1 if any fails
cd /verif
fail=0
for f in claims/C*.json; do id=$(basename $f .json); echo $id; done | xargs -P 3 -I{} sh -c './bin/govc check --claim claims/{}.json > /tmp/runall.{}.log 2>&1; echo "{} exit=$? $(tail -1 /tmp/runall.{}.log)"' | sort
grep -l "^VIOLATION\|^FAILED" /tmp/runall.C*.log 2>/dev/null | while read l; do echo "--- $l"; grep "^FAILED" $l | cut -c1-200; done
rm -f /tmp/runall.*.log.done
python3 - <<'PY'
import json,glob
for f in sorted(glob.glob('/verif/evidence/C*.json')):
    e=json.load(open(f))
    for o in e['coverage'].get('per_obligation',[]):
        if o['ms']>2500: print("SLOW", e['property_id'], o['ms'], o['solver'], o['name'][:110])
PY
