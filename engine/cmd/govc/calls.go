package main

// Calls (contract application), builtins, returns, panics, frame obligations.

import (
	"go/token"
	"fmt"
	"go/types"
	"sort"
	"strings"

	"golang.org/x/tools/go/ssa"
)

var noopFuncs = map[string]bool{
	"(*sync.Mutex).Lock": true, "(*sync.Mutex).Unlock": true,
	"(*sync.RWMutex).Lock": true, "(*sync.RWMutex).Unlock": true, "(*sync.RWMutex).RLock": true, "(*sync.RWMutex).RUnlock": true,
	"(*sync.WaitGroup).Add": true, "(*sync.WaitGroup).Done": true,
	"(*github.com/Fantom-foundation/lachesis-base/utils.SpinLock).Lock":   true,
	"(*github.com/Fantom-foundation/lachesis-base/utils.SpinLock).Unlock": true,
	"(sync.Locker).Lock": true, "(sync.Locker).Unlock": true,
}

func (vc *VC) isNoop(c *ssa.CallCommon) bool {
	if f := c.StaticCallee(); f != nil {
		return noopFuncs[f.String()]
	}
	if c.IsInvoke() {
		return noopFuncs["("+types.TypeString(c.Value.Type(), nil)+")."+c.Method.Name()]
	}
	return false
}

// lockOp: with lock-discipline checking on (some contract file declares 'guarded' fields), Lock/Unlock/RLock/RUnlock on
// a sync.Mutex / sync.RWMutex update the ghost lock state (GH.lkW: held for writing, GH.lkR: number of read holds),
// keyed by the address of the mutex.
func (vc *VC) lockOp(c *ssa.CallCommon, st *State) bool {
	if len(vc.w.guards) == 0 {
		return false
	}
	f := c.StaticCallee()
	if f == nil || len(c.Args) != 1 {
		return false
	}
	name := f.String()
	var op string
	switch name {
	case "(*sync.Mutex).Lock", "(*sync.RWMutex).Lock":
		op = "lock"
	case "(*sync.Mutex).Unlock", "(*sync.RWMutex).Unlock":
		op = "unlock"
	case "(*sync.RWMutex).RLock":
		op = "rlock"
	case "(*sync.RWMutex).RUnlock":
		op = "runlock"
	default:
		return false
	}
	a := vc.locOfPointer(c.Args[0]).key
	w := vc.heap(st, "GH.lkW", "(Array Int Bool)")
	r := vc.heap(st, "GH.lkR", "(Array Int Int)")
	// Go's mutexes are not reentrant: a goroutine that locks a mutex it already holds (or read-locks one it holds for
	// writing) blocks forever, so past this point the mutex was not held by it; read-hold counts are never negative
	reach := vc.reach[vc.curBlock]
	vc.assumeIf(reach, fmt.Sprintf("(>= (select %s %s) 0)", r, a))
	switch op {
	case "lock":
		vc.assumeIf(reach, fmt.Sprintf("(and (not (select %s %s)) (= (select %s %s) 0))", w, a, r, a))
	case "rlock":
		vc.assumeIf(reach, fmt.Sprintf("(not (select %s %s))", w, a))
	}
	// atomicity of an operation of a lock-owning type: a METHOD that has released a mutex of its own receiver does not
	// take that mutex again -- a second critical section would act on state that other goroutines may have changed in
	// between (check-then-act). Applies to the function under contract itself, also where it executes contract-less
	// wrappers in place, but only for mutexes reached from its own receiver.
	if vc.ownsLock(c.Args[0]) {
		rel := vc.heap(st, "GH.lkRel", "(Array Int Bool)")
		if !vc.lkRelInit {
			vc.lkRelInit = true
			vc.d.axioms = append(vc.d.axioms, "(assert (forall ((a!l Int)) (! (not (select GH.lkRel!0 a!l)) :pattern ((select GH.lkRel!0 a!l)))))")
		}
		switch op {
		case "lock", "rlock":
			if !vc.spec.LocksHeld {
				vc.oblige("lock.atomic", "", reach, fmt.Sprintf("(not (select %s %s))", rel, a), "the method has not already released this lock of its receiver (one critical section per operation)")
			}
		case "unlock", "runlock":
			vc.setHeap(st, "GH.lkRel", "(Array Int Bool)", fmt.Sprintf("(store %s %s true)", rel, a))
		}
	}
	switch op {
	case "lock":
		vc.setHeap(st, "GH.lkW", "(Array Int Bool)", fmt.Sprintf("(store %s %s true)", w, a))
	case "unlock":
		vc.setHeap(st, "GH.lkW", "(Array Int Bool)", fmt.Sprintf("(store %s %s false)", w, a))
	case "rlock":
		vc.setHeap(st, "GH.lkR", "(Array Int Int)", fmt.Sprintf("(store %s %s (+ (select %s %s) 1))", r, a, r, a))
	case "runlock":
		vc.setHeap(st, "GH.lkR", "(Array Int Int)", fmt.Sprintf("(store %s %s (- (select %s %s) 1))", r, a, r, a))
	}
	return true
}

// ownsLock: the mutex address is a field path rooted at the receiver of the method being verified (not of a callee that
// is executed in place).
func (vc *VC) ownsLock(addr ssa.Value) bool {
	if vc.fn == nil || vc.fn.Signature.Recv() == nil || len(vc.fn.Params) == 0 {
		return false
	}
	v := addr
	for {
		switch y := v.(type) {
		case *ssa.FieldAddr:
			v = y.X
			continue
		case *ssa.UnOp:
			// embedded pointer (w.Flushable.lock with *Flushable embedded): load of a field of the receiver
			if y.Op == token.MUL {
				if fa, ok := y.X.(*ssa.FieldAddr); ok {
					v = fa.X
					continue
				}
			}
		}
		break
	}
	if v == ssa.Value(vc.fn.Params[0]) {
		return true
	}
	// inside a callee executed in place, the callee's receiver parameter stands for the caller's receiver
	if p, ok := v.(*ssa.Parameter); ok && vc.inl != nil {
		if t, ok := vc.vals[p]; ok && t == vc.vals[vc.fn.Params[0]] {
			return true
		}
	}
	return false
}

// lockStep is one step of a path from a method's receiver to a mutex: field index, preceded by a load when the field
// reached so far holds a pointer (embedded *T).
type lockStep struct {
	field int
	deref bool // load the pointer stored at the location reached so far before taking the field
}

// ownLockPaths summarises which mutexes, reached from its own receiver, a method takes (Lock or RLock) -- directly or
// through methods it calls on the same receiver. Purely syntactic (over the callee's SSA): used where a method under
// contract calls another method of its receiver BY CONTRACT, so that the callee's critical section is not forgotten by
// the lock discipline of the caller (obligation lock.atomic).
func (w *World) ownLockPaths(f *ssa.Function, seen map[*ssa.Function]bool) [][]lockStep {
	if f == nil || f.Signature.Recv() == nil || len(f.Params) == 0 || len(f.Blocks) == 0 || seen[f] {
		return nil
	}
	seen[f] = true
	var res [][]lockStep
	add := func(p []lockStep) {
		for _, q := range res {
			if fmt.Sprint(q) == fmt.Sprint(p) {
				return
			}
		}
		res = append(res, p)
	}
	for _, b := range f.Blocks {
		for _, in := range b.Instrs {
			var cc *ssa.CallCommon
			switch y := in.(type) {
			case *ssa.Call:
				cc = y.Common()
			case *ssa.Defer:
				cc = y.Common()
			}
			if cc == nil || cc.StaticCallee() == nil || len(cc.Args) == 0 {
				continue
			}
			g := cc.StaticCallee()
			switch g.String() {
			case "(*sync.Mutex).Lock", "(*sync.RWMutex).Lock", "(*sync.RWMutex).RLock":
				// walk the address back to the receiver
				var rev []lockStep
				v := cc.Args[0]
				ok := false
				for {
					if fa, isFA := v.(*ssa.FieldAddr); isFA {
						st := lockStep{field: fa.Field}
						v = fa.X
						if u, isU := v.(*ssa.UnOp); isU && u.Op == token.MUL {
							if _, inner := u.X.(*ssa.FieldAddr); inner {
								st.deref = true
								v = u.X
							}
						}
						rev = append(rev, st)
						continue
					}
					ok = v == ssa.Value(f.Params[0])
					break
				}
				if ok && len(rev) > 0 {
					p := make([]lockStep, len(rev))
					for i := range rev {
						p[len(rev)-1-i] = rev[i]
					}
					add(p)
				}
			default:
				if g.Signature.Recv() != nil && cc.Args[0] == ssa.Value(f.Params[0]) {
					for _, p := range w.ownLockPaths(g, seen) {
						add(p)
					}
				}
			}
		}
	}
	return res
}

// calleeLocks: a method of the verified method's own receiver (or of something reached from it by a field path) is
// called by contract. For every mutex the callee takes (summary above): the caller does not hold it (assumed: Go's
// mutexes are not reentrant, the call would never return), must not have released it before (lock.atomic, one
// critical section per operation), and has released it afterwards.
func (vc *VC) calleeLocks(f *ssa.Function, c *ssa.CallCommon, st *State) {
	if len(vc.w.guards) == 0 || f.Signature.Recv() == nil || len(c.Args) == 0 || !vc.ownsLock(c.Args[0]) {
		return
	}
	if _, isPtr := c.Args[0].Type().Underlying().(*types.Pointer); !isPtr {
		return
	}
	paths := vc.w.ownLockPaths(f, map[*ssa.Function]bool{})
	if len(paths) == 0 {
		return
	}
	reach := vc.reach[vc.curBlock]
	for _, p := range paths {
		l := vc.locOfPointer(c.Args[0])
		okp := true
		for _, s := range p {
			if l.kind != lStruct {
				okp = false
				break
			}
			if _, isS := isStruct(l.typ); !isS {
				okp = false
				break
			}
			l = vc.fieldLoc(l, s.field)
			if s.deref {
				// the field holds a pointer to a struct: continue from the struct it points to
				pt, isP := l.typ.Underlying().(*types.Pointer)
				if !isP {
					okp = false
					break
				}
				l = vc.locOfRef(vc.loadRoot(st, l), pt.Elem())
			}
		}
		if !okp || l.kind != lStruct {
			continue
		}
		a := l.key
		w := vc.heap(st, "GH.lkW", "(Array Int Bool)")
		r := vc.heap(st, "GH.lkR", "(Array Int Int)")
		rel := vc.heap(st, "GH.lkRel", "(Array Int Bool)")
		if !vc.lkRelInit {
			vc.lkRelInit = true
			vc.d.axioms = append(vc.d.axioms, "(assert (forall ((a!l Int)) (! (not (select GH.lkRel!0 a!l)) :pattern ((select GH.lkRel!0 a!l)))))")
		}
		// Go's mutexes are not reentrant: were the mutex held here, the callee would block forever; so past the call
		// it was not held (partial correctness, the same treatment as a direct Lock)
		vc.assumeIf(reach, fmt.Sprintf("(and (not (select %s %s)) (<= (select %s %s) 0))", w, a, r, a))
		if !vc.spec.LocksHeld {
			vc.oblige("lock.atomic", "", reach, fmt.Sprintf("(not (select %s %s))", rel, a),
				"the method has not already released the lock of its receiver that the called method takes (one critical section per operation): "+f.Name())
		}
		vc.setHeap(st, "GH.lkRel", "(Array Int Bool)", fmt.Sprintf("(store %s %s true)", rel, a))
	}
}

func (vc *VC) execCall(x *ssa.Call, c *ssa.CallCommon, st *State, holder ssa.Value) {
	if vc.lockOp(c, st) {
		return
	}
	if vc.isNoop(c) {
		if x != nil {
			vc.noteTrusted("sync primitives are no-ops (sequential semantics)")
		}
		return
	}
	if b, ok := c.Value.(*ssa.Builtin); ok {
		vc.execBuiltin(x, b, c, st)
		return
	}
	if f := c.StaticCallee(); f != nil && f.Pkg != nil && f.Pkg.Pkg.Path() == "sync/atomic" {
		vc.execAtomic(x, f, c, st)
		return
	}
	if f := c.StaticCallee(); f != nil && strings.HasPrefix(f.String(), "(*sync/atomic.") {
		vc.execAtomicMethod(x, f, c, st)
		return
	}
	var spec *FuncSpec
	var sig *types.Signature = c.Signature()
	var calleeName string
	binds := map[string]SVal{}
	var argVals []SVal
	var recv *SVal
	pureKey := ""
	mkArg := func(v ssa.Value) SVal {
		return SVal{t: vc.val(v), typ: v.Type(), sort: vc.d.sortOf(v.Type())}
	}
	switch {
	case c.IsInvoke():
		m := c.Method
		rt := m.Type().(*types.Signature).Recv().Type()
		named, _ := rt.(*types.Named)
		if named == nil {
			if nn, ok := c.Value.Type().(*types.Named); ok {
				named = nn
			}
		}
		if named == nil {
			vc.fail("invoke on unnamed interface %s", c.Value.Type())
		}
		pkgPath := ""
		if named.Obj().Pkg() != nil {
			pkgPath = named.Obj().Pkg().Path()
		}
		key := "iface:" + pkgPath + "." + named.Obj().Name() + "." + m.Name()
		spec = vc.w.funcSpecs[key]
		calleeName = named.Obj().Name() + "." + m.Name()
		if spec == nil {
			vc.fail("no contract for interface method %s", key)
		}
		r := mkArg(c.Value)
		if spec.AliasOf != "" {
			// devirtualised: the dynamic type is shown to be the one concrete implementation
			tf := vc.w.findFunc(spec.AliasPkg, spec.AliasOf)
			if tf == nil {
				vc.fail("contract: iface alias: no method %s in %s", spec.AliasOf, spec.AliasPkg)
			}
			tspec := vc.w.specFor(tf)
			if tspec == nil {
				vc.fail("no contract for method %s", funcKey(tf))
			}
			ct := tf.Signature.Recv().Type()
			srt := vc.d.sortOf(ct)
			bn := vc.boxName(ct)
			vc.d.declFun(bn, fmt.Sprintf("(declare-fun %s (%s) Int)", bn, srt))
			vc.d.declFun("un"+bn, fmt.Sprintf("(declare-fun un%s (Int) %s)", bn, srt))
			vc.safety("dyntype", fmt.Sprintf("(and (> %s 0) (= (typeof %s) %d))", r.t, r.t, vc.d.typeTag(ct)), "the dynamic type of the "+named.Obj().Name()+" value is "+ct.String()+" ("+calleeName+")")
			cr := SVal{t: vc.define("devirt", srt, fmt.Sprintf("(un%s %s)", bn, r.t)), typ: ct, sort: srt}
			recv = &cr
			rn := tf.Signature.Recv().Name()
			if rn == "" || rn == "_" {
				rn = "self"
			}
			binds[rn] = cr
			binds["self"] = cr
			for i, a := range c.Args {
				av := mkArg(a)
				argVals = append(argVals, av)
				binds[paramName(tspec, tf.Signature, i)] = av
			}
			spec = tspec
			sig = tf.Signature
			calleeName = tf.RelString(nil)
			if i := strings.LastIndex(calleeName, "/"); i >= 0 {
				calleeName = calleeName[i+1:]
			}
			pureKey = funcKey(tf)
			vc.noteCallee(tf, tspec)
			break
		}
		recv = &r
		binds["self"] = r
		pureKey = key
		vc.safety("nil", fmt.Sprintf("(not (= %s 0))", r.t), "method call on nil interface value ("+calleeName+")")
		for i, a := range c.Args {
			av := mkArg(a)
			argVals = append(argVals, av)
			binds[paramName(spec, sig, i)] = av
		}
	case c.StaticCallee() != nil:
		f := c.StaticCallee()
		spec = vc.w.specFor(f)
		calleeName = f.RelString(nil)
		if i := strings.LastIndex(calleeName, "/"); i >= 0 {
			calleeName = calleeName[i+1:]
		}
		if spec == nil {
			if vc.inlineCall(x, f, c, st) {
				return
			}
			vc.fail("no contract for callee %s", funcKey(f))
		}
		vc.noteCallee(f, spec)
		vc.calleeLocks(f, c, st)
		pureKey = funcKey(f)
		args := c.Args
		if f.Signature.Recv() != nil {
			r := mkArg(args[0])
			recv = &r
			rn := f.Signature.Recv().Name()
			if rn == "" || rn == "_" {
				rn = "self"
			}
			binds[rn] = r
			binds["self"] = r
			args = args[1:]
		}
		for i, a := range args {
			av := mkArg(a)
			argVals = append(argVals, av)
			binds[paramName(spec, f.Signature, i)] = av
		}
		if len(f.FreeVars) > 0 {
			// direct call of a closure literal
			if mc, ok := c.Value.(*ssa.MakeClosure); ok {
				for i, fv := range f.FreeVars {
					binds[fv.Name()] = SVal{t: vc.val(mc.Bindings[i]), typ: fv.Type(), sort: "Int", cellOf: derefType(fv.Type())}
				}
			}
		}
	default:
		// dynamic call through a function value
		if ci, ok := vc.clos[c.Value]; ok {
			f := ci.fn
			spec = vc.w.specFor(f)
			calleeName = f.Name()
			if spec == nil {
				vc.fail("no contract for closure %s", funcKey(f))
			}
			for i, fv := range f.FreeVars {
				binds[fv.Name()] = SVal{t: ci.terms[i], typ: fv.Type(), sort: "Int", cellOf: derefType(fv.Type())}
			}
			for i, a := range c.Args {
				av := mkArg(a)
				argVals = append(argVals, av)
				binds[paramName(spec, f.Signature, i)] = av
			}
			break
		}
		key, owner, ownerT := vc.funcValueKey(c.Value)
		if key == "" {
			vc.fail("call through function value %s without funcfield contract", c.Value.Name())
		}
		spec = vc.w.funcSpecs[key]
		calleeName = strings.TrimPrefix(key[strings.LastIndex(key, "/")+1:], "funcfield:")
		if spec == nil {
			vc.fail("no contract for %s", key)
		}
		if spec.AliasOf != "" {
			// the function value is (proved to be) a closure of a known function: that function's contract applies
			tf := vc.w.findFunc(spec.Pkg, spec.AliasOf)
			if tf == nil {
				vc.fail("contract: funcfield alias: no function %s in %s", spec.AliasOf, spec.Pkg)
			}
			tspec := vc.w.specFor(tf)
			if tspec == nil {
				vc.fail("no contract for closure %s", funcKey(tf))
			}
			fv := vc.val(c.Value)
			code := "code." + sanitize(funcKey(tf))
			vc.d.declFun(code, fmt.Sprintf("(declare-const %s Int)", code))
			vc.d.declFun("fncode", "(declare-fun fncode (Int) Int)")
			vc.safety("closure", fmt.Sprintf("(and (> %s 0) (= (fncode %s) %s))", fv, fv, code), "the function value called is the closure "+spec.AliasOf)
			for i, fvar := range tf.FreeVars {
				fvn := fmt.Sprintf("fv.%s.%d", sanitize(funcKey(tf)), i)
				vc.d.declFun(fvn, fmt.Sprintf("(declare-fun %s (Int) %s)", fvn, vc.d.sortOf(fvar.Type())))
				binds[fvar.Name()] = SVal{t: fmt.Sprintf("(%s %s)", fvn, fv), typ: fvar.Type(), sort: "Int", cellOf: derefType(fvar.Type())}
			}
			for i, a := range c.Args {
				av := mkArg(a)
				argVals = append(argVals, av)
				binds[paramName(tspec, tf.Signature, i)] = av
			}
			spec = tspec
			calleeName = tf.Name()
			pureKey = funcKey(tf)
			break
		}
		if owner != "" {
			binds["owner"] = SVal{t: owner, typ: ownerT, sort: "Int"}
		}
		binds["fnval"] = mkArg(c.Value)
		fv := mkArg(c.Value)
		recv = &fv
		pureKey = key
		vc.safety("nil", fmt.Sprintf("(not (= %s 0))", fv.t), "call of a nil function value ("+calleeName+")")
		for i, a := range c.Args {
			av := mkArg(a)
			argVals = append(argVals, av)
			binds[paramName(spec, sig, i)] = av
		}
	}
	vc.closArgs = nil
	for _, a := range c.Args {
		if ci, ok := vc.clos[a]; ok {
			if sp := vc.w.specFor(ci.fn); sp != nil && len(sp.Preserves) > 0 {
				vc.closArgs = append(vc.closArgs, ci)
			}
		}
	}
	results := vc.applySpec(calleeName, spec, sig, binds, st, recv, argVals, pureKey)
	vc.closArgs = nil
	if x != nil {
		n := sig.Results().Len()
		switch {
		case n == 1:
			vc.vals[x] = results[0]
		case n > 1:
			vc.tuples[x] = results
		}
	}
}

func paramName(spec *FuncSpec, sig *types.Signature, i int) string {
	if spec != nil && i < len(spec.Params) {
		return spec.Params[i]
	}
	if i < sig.Params().Len() {
		n := sig.Params().At(i).Name()
		if n != "" && n != "_" {
			return n
		}
	}
	return fmt.Sprintf("arg%d", i)
}

// funcValueKey finds the funcfield contract key for a function value loaded from a struct field
// or passed as parameter.
func (vc *VC) funcValueKey(v ssa.Value) (key, owner string, ownerT types.Type) {
	switch x := v.(type) {
	case *ssa.UnOp:
		if fv, ok := x.X.(*ssa.FreeVar); ok {
			return "funcfield:" + funcKey(fv.Parent()) + "." + fv.Name(), "", nil
		}
		if al, ok := x.X.(*ssa.Alloc); ok && al.Comment != "" {
			return "funcfield:" + funcKey(al.Parent()) + "." + al.Comment, "", nil
		}
		if fa, ok := x.X.(*ssa.FieldAddr); ok {
			S := derefType(fa.X.Type())
			s, _ := isStruct(S)
			named, ok := S.(*types.Named)
			if !ok {
				return "", "", nil
			}
			l := vc.locOfPointer(fa.X)
			if l.kind == lStruct {
				owner = l.key
				ownerT = types.NewPointer(S)
			}
			return "funcfield:" + named.Obj().Pkg().Path() + "." + named.Obj().Name() + "." + s.Field(fa.Field).Name(), owner, ownerT
		}
	case *ssa.Field:
		S := x.X.Type()
		s, _ := isStruct(S)
		if named, ok := S.(*types.Named); ok {
			return "funcfield:" + named.Obj().Pkg().Path() + "." + named.Obj().Name() + "." + s.Field(x.Field).Name(), "", nil
		}
	case *ssa.Parameter:
		fk := funcKey(x.Parent())
		i := strings.LastIndex(fk, "/")
		_ = i
		return "funcfield:" + fk + "." + x.Name(), "", nil
	case *ssa.FreeVar:
		return "funcfield:" + funcKey(x.Parent()) + "." + x.Name(), "", nil
	case *ssa.Phi, *ssa.Extract, *ssa.Call:
		// by type name if it is a named func type
		if named, ok := v.Type().(*types.Named); ok {
			return "funcfield:" + named.Obj().Pkg().Path() + "." + named.Obj().Name(), "", nil
		}
	}
	if named, ok := v.Type().(*types.Named); ok {
		return "funcfield:" + named.Obj().Pkg().Path() + "." + named.Obj().Name(), "", nil
	}
	return "", "", nil
}

func (vc *VC) noteTrusted(s string) { vc.trustedUsed[s] = true }

// noteCallee records, for the evidence, that the contract of a callee which this claim does not itself check was
// relied on at a call site (modular verification: the caller is checked against the callee's contract, which is
// discharged where the callee is under contract -- under another claim, or nowhere: then it is an assumption).
func (vc *VC) noteCallee(f *ssa.Function, spec *FuncSpec) {
	if spec == nil || spec.Trusted || len(vc.w.claimed) == 0 || f == nil {
		return
	}
	g := f
	for g.Parent() != nil {
		g = g.Parent()
	}
	key := funcKey(g)
	if vc.w.claimed[key] {
		return
	}
	short := strings.TrimPrefix(key, modPrefix)
	if ids := vc.w.provedBy[key]; len(ids) > 0 {
		vc.noteTrusted("callee contract relied on, discharged under claim " + strings.Join(ids, ",") + " (not in this claim's function list): " + short)
	} else {
		vc.noteTrusted("callee contract ASSUMED (relied on at a call site, the callee is in no claim's function list): " + short)
	}
}

func (vc *VC) specPkg(spec *FuncSpec) *types.Package {
	if tp, ok := vc.w.tpkgs[spec.Pkg]; ok && tp.Types != nil {
		return tp.Types
	}
	return nil
}

// atCallFor returns the caller-side annotations for the k-th call of callee.
func (vc *VC) atCallFor(callee string) *AtCall {
	vc.callCount[callee]++
	k := vc.callCount[callee]
	for _, a := range vc.spec.AtCalls {
		if a.Callee == callee && (a.N == k || a.N == -1) {
			if vc.atUsed == nil {
				vc.atUsed = map[*AtCall]bool{}
			}
			vc.atUsed[a] = true
			return a
		}
	}
	return nil
}

func (vc *VC) applySpec(calleeName string, spec *FuncSpec, sig *types.Signature, binds map[string]SVal, st *State,
	recv *SVal, argVals []SVal, pureKey string) []string {
	reach := vc.reach[vc.curBlock]
	if spec.Trusted {
		vc.noteTrusted("trusted contract: " + spec.Pkg + "." + spec.Name)
	}
	at := vc.atCallFor(calleeName)
	k := vc.callCount[calleeName]
	label := fmt.Sprintf("%d:%s", k, calleeName)
	pre := st.clone()
	// caller-side ghost updates before the call
	callerEnv := &Env{vc: vc, cur: st, old: vc.entry, vars: map[string]SVal{}, block: vc.curBlock}
	if len(vc.active) > 0 {
		callerEnv.loop = vc.active[len(vc.active)-1]
	}
	if at != nil {
		for _, h := range at.Hints {
			callerEnv.applyHint(h, reach)
		}
		for _, c := range at.Assumes {
			f := callerEnv.evalBool(c.E)
			callerEnv.flushSide(reach)
			vc.assumeIf(reach, f)
			vc.noteTrusted(fmt.Sprintf("ASSUMED at call %s of %s (resource bound, not checked): %s", label, vc.fn.Name(), c.Src))
		}
		for i, c := range at.Requires {
			f := callerEnv.evalBool(c.E)
			callerEnv.flushSide(reach)
			vc.oblige("call["+label+"].at.requires", labelOr(c.Name, i), reach, f, c.Src)
			vc.assumeIf(reach, f)
		}
		for _, g := range at.GhostPre {
			vc.ghostAssign(callerEnv, st, g)
		}
		pre = st.clone()
	}
	env := &Env{vc: vc, cur: pre, old: pre, vars: binds, noFnNames: true, pkg: vc.specPkg(spec)}
	for i, c := range spec.Requires {
		f := env.evalBool(c.E)
		env.flushSide(reach)
		vc.oblige("call["+label+"].requires", labelOr(c.Name, i), reach, f, c.Src)
		vc.assumeIf(reach, f)
	}
	if spec.Panics != nil {
		f := env.evalBool(spec.Panics.E)
		env.flushSide(reach)
		vc.oblige("call["+label+"].nopanic", "", reach, "(not "+f+")", "callee does not panic: !("+spec.Panics.Src+")")
		vc.assumeIf(reach, "(not "+f+")")
	}
	// closures handed to the callee (a callback may invoke them any number of times): their invariants hold now ...
	closEnv := func(ci *closureInfo, s *State) *Env {
		b := map[string]SVal{}
		for i, fv := range ci.fn.FreeVars {
			b[fv.Name()] = SVal{t: ci.terms[i], typ: fv.Type(), sort: "Int", cellOf: derefType(fv.Type())}
		}
		return &Env{vc: vc, cur: s, old: s, vars: b, noFnNames: true, pkg: vc.specPkg(vc.w.specFor(ci.fn))}
	}
	for _, ci := range vc.closArgs {
		ce := closEnv(ci, pre)
		for i, c := range vc.w.specFor(ci.fn).Preserves {
			f := ce.evalBool(c.E)
			ce.flushSide(reach)
			vc.oblige("call["+label+"].closure["+ci.fn.Name()+"].preserves", labelOr(c.Name, i), reach, f, c.Src)
		}
	}
	// havoc the modifies set
	var mls []modLoc
	for _, m := range spec.Modifies {
		mls = append(mls, env.evalLocs(m)...)
	}
	for _, ci := range vc.closArgs {
		ce := closEnv(ci, pre)
		for _, m := range vc.w.specFor(ci.fn).Modifies {
			mls = append(mls, ce.evalLocs(m)...)
		}
		ce.flushSide(reach)
	}
	env.flushSide(reach)
	for _, ml := range mls {
		vc.havoc(st, ml)
	}
	if at != nil {
		for _, m := range at.Modifies {
			for _, ml := range callerEnv.evalLocs(m) {
				vc.havoc(st, ml)
			}
		}
		callerEnv.flushSide(reach)
	}
	// ... and still hold after the callee returns (each invocation keeps them: proved in the closure's own check)
	for _, ci := range vc.closArgs {
		ce := closEnv(ci, st)
		for _, c := range vc.w.specFor(ci.fn).Preserves {
			f := ce.evalBool(c.E)
			ce.flushSide(reach)
			vc.assumeIf(reach, f)
		}
		vc.noteTrusted("callee " + calleeName + " is handed the closure " + ci.fn.Name() + ": assumed to touch the closure's captured variables only by invoking it, with arguments that meet its precondition")
	}
	if !spec.Pure {
		a := vc.fresh("alloc", "Int")
		vc.assume(fmt.Sprintf("(>= %s %s)", a, st.alloc))
		st.alloc = a
		if vc.writeLog != nil {
			vc.writeLog["$alloc"] = true
		}
	}
	// results
	var results []string
	var resVals []SVal
	nres := sig.Results().Len()
	for i := 0; i < nres; i++ {
		rt := sig.Results().At(i).Type()
		var r string
		if spec.Pure && nres >= 1 && recvOrArgsOK(recv, argVals) {
			var rv SVal
			args := argVals
			if recv != nil {
				rv = *recv
			} else if len(args) > 0 {
				rv, args = args[0], args[1:]
			} else {
				rv = SVal{t: "0", sort: "Int"}
			}
			psig := sig
			if recv == nil && len(argVals) > 0 {
				// static function: first arg plays the receiver role in the UF signature
				var ps []*types.Var
				for j := 1; j < sig.Params().Len(); j++ {
					ps = append(ps, sig.Params().At(j))
				}
				psig = types.NewSignatureType(nil, nil, nil, types.NewTuple(ps...), sig.Results(), false)
			}
			if nres == 1 {
				r = vc.define("pure", vc.d.sortOf(rt), vc.pureApp(pureKey, psig, rv, args))
			} else {
				// a pure function with several results: one uninterpreted symbol per result
				one := types.NewSignatureType(nil, nil, nil, psig.Params(), types.NewTuple(sig.Results().At(i)), false)
				r = vc.define("pure", vc.d.sortOf(rt), vc.pureApp(fmt.Sprintf("%s#%d", pureKey, i), one, rv, args))
			}
		} else {
			r = vc.fresh("ret."+calleeName, vc.d.sortOf(rt))
		}
		vc.assumeRange(r, rt, st, reach)
		if spec.Pure {
			// the value of a pure (state-independent) function cannot be storage allocated by this activation
			vc.assumeRange(r, rt, vc.entry, reach)
		}
		results = append(results, r)
		resVals = append(resVals, SVal{t: r, typ: rt, sort: vc.d.sortOf(rt)})
	}
	post := &Env{vc: vc, cur: st, old: pre, vars: binds, noFnNames: true, pkg: vc.specPkg(spec), results: resVals}
	// named results of the callee signature
	for i := 0; i < nres; i++ {
		if n := sig.Results().At(i).Name(); n != "" && n != "_" {
			if _, clash := binds[n]; !clash {
				post.vars = copyVars(post.vars)
				post.vars[n] = resVals[i]
			}
		}
	}
	if vc.callRes == nil {
		vc.callRes = map[string][]SVal{}
	}
	vc.callRes[label] = resVals
	if vc.callResBlock == nil {
		vc.callResBlock = map[string]*ssa.BasicBlock{}
	}
	vc.callResBlock[label] = vc.curBlock
	for _, g := range spec.Ghosts {
		vc.ghostAssign(post, st, g)
	}
	for _, c := range spec.Ensures {
		f := post.evalBool(c.E)
		post.flushSide(reach)
		vc.assumeIf(reach, f)
	}
	if at != nil {
		callerEnv.cur = st
		for _, g := range at.GhostPost {
			vc.ghostAssign(callerEnv, st, g)
		}
	}
	return results
}

func copyVars(m map[string]SVal) map[string]SVal {
	n := map[string]SVal{}
	for k, v := range m {
		n[k] = v
	}
	return n
}

func recvOrArgsOK(recv *SVal, args []SVal) bool { return true }

func (vc *VC) ghostAssign(env *Env, st *State, g GhostUpd) {
	rhs := env.eval(g.RHS)
	switch l := g.LHS.(type) {
	case *EIdent:
		gd := vc.w.ghosts[l.Name]
		if gd == nil {
			vc.fail("ghost assignment to unknown ghost %s", l.Name)
		}
		_, srt, _ := env.ghostSorts(gd)
		vc.setHeap(st, "GH."+gd.Name, srt, rhs.t)
	case *EIndex:
		id, ok := l.X.(*EIdent)
		if !ok {
			vc.fail("ghost assignment target")
		}
		gd := vc.w.ghosts[id.Name]
		if gd == nil {
			vc.fail("ghost assignment to unknown ghost %s", id.Name)
		}
		ks, vs, _ := env.ghostSorts(gd)
		k := env.eval(l.I)
		hs := "(Array " + ks + " " + vs + ")"
		vc.setHeap(st, "GH."+gd.Name, hs, fmt.Sprintf("(store %s %s %s)", vc.heap(st, "GH."+gd.Name, hs), k.t, rhs.t))
	default:
		vc.fail("ghost assignment target")
	}
	env.flushSide("")
}

func (vc *VC) havoc(st *State, ml modLoc) {
	if ml.isMap {
		md, mv, mlh, ks, vs, names, sorts := vc.mapTerms(st, ml.mt)
		vc.noteWrite(st, names[0], ml.key)
		if ml.mapKey == "" {
			vc.setHeap(st, names[0], sorts[0], fmt.Sprintf("(store %s %s %s)", md, ml.key, vc.fresh("hv.dom", "(Array "+ks+" Bool)")))
			vc.setHeap(st, names[1], sorts[1], fmt.Sprintf("(store %s %s %s)", mv, ml.key, vc.fresh("hv.val", "(Array "+ks+" "+vs+")")))
		} else {
			vc.setHeap(st, names[0], sorts[0], fmt.Sprintf("(store %s %s (store (select %s %s) %s %s))", md, ml.key, md, ml.key, ml.mapKey, vc.fresh("hv.has", "Bool")))
			vc.setHeap(st, names[1], sorts[1], fmt.Sprintf("(store %s %s (store (select %s %s) %s %s))", mv, ml.key, mv, ml.key, ml.mapKey, vc.fresh("hv.v", vs)))
		}
		nl := vc.fresh("hv.len", "Int")
		vc.assume(fmt.Sprintf("(>= %s 0)", nl))
		vc.setHeap(st, names[2], sorts[2], fmt.Sprintf("(store %s %s %s)", mlh, ml.key, nl))
		return
	}
	h := vc.heap(st, ml.heap, ml.hsort)
	if ml.whole {
		n := vc.fresh(ml.heap+".hv", ml.hsort)
		st.heaps[ml.heap] = n
		if vc.writeLog != nil {
			vc.writeLog[ml.heap] = true
		}
		for _, lp := range vc.active {
			if !lp.wholeHeap[ml.heap] && !vc.discovery {
				vc.oblige(fmt.Sprintf("loop%d.modifies", lp.ordinal), "", vc.reach[vc.curBlock], "false", "whole-heap havoc of "+ml.heap+" inside a loop needs 'loop N modifies "+ml.heap+"[*]'")
			}
		}
		return
	}
	if !strings.HasPrefix(ml.hsort, "(Array") {
		st.heaps[ml.heap] = vc.fresh(ml.heap+".hv", ml.hsort)
		if vc.writeLog != nil {
			vc.writeLog[ml.heap] = true
		}
		return
	}
	vc.noteWrite(st, ml.heap, ml.key)
	inner := innerSort(ml.hsort)
	if ml.idx != "" {
		es := innerSort(inner)
		vc.setHeap(st, ml.heap, ml.hsort, fmt.Sprintf("(store %s %s (store (select %s %s) %s %s))", h, ml.key, h, ml.key, ml.idx, vc.fresh("hv", es)))
		return
	}
	vc.setHeap(st, ml.heap, ml.hsort, fmt.Sprintf("(store %s %s %s)", h, ml.key, vc.fresh("hv", inner)))
}

// ---------- builtins ----------

func (vc *VC) execBuiltin(x *ssa.Call, b *ssa.Builtin, c *ssa.CallCommon, st *State) {
	switch b.Name() {
	case "len", "cap":
		a := c.Args[0]
		v := vc.val(a)
		switch t := a.Type().Underlying().(type) {
		case *types.Slice:
			if b.Name() == "len" {
				vc.setVal(x, "(s-len "+v+")")
			} else {
				vc.setVal(x, "(s-cap "+v+")")
			}
		case *types.Map:
			md, _, ml, ks, _, _, _ := vc.mapTerms(st, t)
			vc.setVal(x, fmt.Sprintf("(select %s %s)", ml, v))
			// cardinality: the length is zero exactly when the domain is empty
			vc.assume(fmt.Sprintf("(forall ((k!l %s)) (! (=> (select (select %s %s) k!l) (> (select %s %s) 0)) :pattern ((select (select %s %s) k!l))))", ks, md, v, ml, v, md, v))
			vc.assume(fmt.Sprintf("(and (>= %s 0) (<= %s 9223372036854775807))", vc.vals[x], vc.vals[x]))
		case *types.Basic:
			vc.setVal(x, "(strlen "+v+")")
		case *types.Array:
			vc.setVal(x, fmt.Sprint(t.Len()))
		case *types.Pointer:
			vc.setVal(x, fmt.Sprint(t.Elem().Underlying().(*types.Array).Len()))
		default:
			vc.fail("len of %s", a.Type())
		}
	case "append":
		vc.execAppend(x, c, st)
	case "copy":
		vc.execCopy(x, c, st)
	case "delete":
		mt := c.Args[0].Type().Underlying().(*types.Map)
		vc.mapDelete(st, mt, vc.val(c.Args[0]), vc.val(c.Args[1]))
	case "print", "println":
	case "close":
		vc.noteTrusted("close(chan) is ignored (channels are outside the sequential model; closing twice would panic)")
	case "ssa:wrapnilchk":
		vc.setVal(x, vc.val(c.Args[0]))
	default:
		vc.fail("builtin %s", b.Name())
	}
}

// constSliceLen returns n if v is a full slice of a fresh [n]T array (variadic packing), else -1.
func constSliceLen(v ssa.Value) int {
	s, ok := v.(*ssa.Slice)
	if !ok || s.Low != nil || s.High != nil {
		return -1
	}
	a, ok := s.X.(*ssa.Alloc)
	if !ok {
		return -1
	}
	arr, ok := a.Type().Underlying().(*types.Pointer).Elem().Underlying().(*types.Array)
	if !ok || arr.Len() > 8 {
		return -1
	}
	return int(arr.Len())
}

func (vc *VC) execAppend(x *ssa.Call, c *ssa.CallCommon, st *State) {
	s := vc.val(c.Args[0])
	st0 := c.Args[0].Type().Underlying().(*types.Slice)
	et := st0.Elem()
	es := vc.d.sortOf(et)
	hn, hs := vc.d.elemHeap(et)
	E := vc.define("E.pre", hs, vc.heap(st, hn, hs))
	var n string
	var elems []string // unrolled element terms, nil => quantified copy
	srcIsString := false
	var t string
	if _, ok := c.Args[1].Type().Underlying().(*types.Basic); ok {
		srcIsString = true
	}
	if c.Args[1].Type() == types.Typ[types.UntypedNil] {
		vc.setVal(x, s)
		return
	}
	if cn, ok := c.Args[1].(*ssa.Const); ok && cn.Value == nil {
		vc.setVal(x, s)
		return
	}
	t = vc.val(c.Args[1])
	if k := constSliceLen(c.Args[1]); k >= 0 && !srcIsString {
		n = fmt.Sprint(k)
		for j := 0; j < k; j++ {
			elems = append(elems, fmt.Sprintf("(select (select %s (s-arr %s)) (+ (s-off %s) %d))", E, t, t, j))
		}
	} else if srcIsString {
		n = "(strlen " + t + ")"
	} else {
		n = "(s-len " + t + ")"
	}
	ln := vc.define("app.len", "Int", "(s-len "+s+")")
	newLen := vc.define("app.newlen", "Int", fmt.Sprintf("(+ %s %s)", ln, n))
	fits := vc.define("app.fits", "Bool", fmt.Sprintf("(<= %s (s-cap %s))", newLen, s))
	srcElem := func(j string) string {
		if srcIsString {
			vc.d.declFun("bytes.of.str", "(declare-fun bytes.of.str (Int) (Array Int Int))")
			return fmt.Sprintf("(select (bytes.of.str %s) %s)", t, j)
		}
		return fmt.Sprintf("(select (select %s (s-arr %s)) (+ (s-off %s) %s))", E, t, t, j)
	}
	// in-place contents
	inArr := fmt.Sprintf("(select %s (s-arr %s))", E, s)
	var inNew string
	if elems != nil {
		inNew = inArr
		for j, el := range elems {
			inNew = fmt.Sprintf("(store %s (+ (s-off %s) %s %d) %s)", inNew, s, ln, j, el)
		}
	} else {
		nc := vc.fresh("app.in", "(Array Int "+es+")")
		lo := vc.define("app.lo", "Int", fmt.Sprintf("(+ (s-off %s) %s)", s, ln))
		vc.assume(fmt.Sprintf("(forall ((k!a Int)) (! (=> (and (<= %s k!a) (< k!a (+ %s %s))) (= (select %s k!a) %s)) :pattern ((select %s k!a))))",
			lo, lo, n, nc, srcElem("(- k!a "+lo+")"), nc))
		vc.assume(fmt.Sprintf("(forall ((i!a Int)) (! (=> (or (< i!a (+ (s-off %s) %s)) (>= i!a (+ (s-off %s) %s))) (= (select %s i!a) (select %s i!a))) :pattern ((select %s i!a))))",
			s, ln, s, newLen, nc, inArr, nc))
		inNew = nc
	}
	// reallocated contents
	r := vc.bumpAlloc(st)
	pre := vc.fresh("app.copy", "(Array Int "+es+")")
	vc.assume(fmt.Sprintf("(forall ((j!b Int)) (! (=> (and (<= 0 j!b) (< j!b %s)) (= (select %s j!b) (select %s (+ (s-off %s) j!b)))) :pattern ((select %s j!b))))",
		ln, pre, inArr, s, pre))
	var reNew string
	if elems != nil {
		reNew = pre
		for j, el := range elems {
			reNew = fmt.Sprintf("(store %s (+ %s %d) %s)", reNew, ln, j, el)
		}
	} else {
		nc := vc.fresh("app.re", "(Array Int "+es+")")
		vc.assume(fmt.Sprintf("(forall ((k!c Int)) (! (=> (and (<= %s k!c) (< k!c (+ %s %s))) (= (select %s k!c) %s)) :pattern ((select %s k!c))))",
			ln, ln, n, nc, srcElem("(- k!c "+ln+")"), nc))
		vc.assume(fmt.Sprintf("(forall ((i!c Int)) (! (=> (and (<= 0 i!c) (< i!c %s)) (= (select %s i!c) (select %s i!c))) :pattern ((select %s i!c))))",
			ln, nc, pre, nc))
		reNew = nc
	}
	newCap := vc.fresh("app.cap", "Int")
	vc.assume(fmt.Sprintf("(>= %s %s)", newCap, newLen))
	vc.noteWrite(st, hn, "(s-arr "+s+")")
	tgt := vc.define("app.arr", "Int", fmt.Sprintf("(ite %s (s-arr %s) %s)", fits, s, r))
	cont := vc.define("app.cont", "(Array Int "+es+")", fmt.Sprintf("(ite %s %s %s)", fits, inNew, reNew))
	vc.setHeap(st, hn, hs, fmt.Sprintf("(store %s %s %s)", E, tgt, cont))
	vc.setVal(x, fmt.Sprintf("(ite %s (mk-slice (s-arr %s) (s-off %s) %s (s-cap %s)) (mk-slice %s 0 %s %s))", fits, s, s, newLen, s, r, newLen, newCap))
	// derived fact (holds in both branches): the result keeps the old elements
	res := vc.vals[x]
	vc.assume(fmt.Sprintf("(forall ((k!p Int)) (! (=> (and (<= (s-off %s) k!p) (< k!p (+ (s-off %s) %s))) (= (select (select %s (s-arr %s)) k!p) (select (select %s (s-arr %s)) (+ (s-off %s) (- k!p (s-off %s)))))) :pattern ((select (select %s (s-arr %s)) k!p))))",
		res, res, ln, vc.heap(st, hn, hs), res, E, s, s, res, vc.heap(st, hn, hs), res))
	if elems != nil {
		for j := range elems {
			vc.assume(fmt.Sprintf("(= (select (select %s (s-arr %s)) (+ (s-off %s) %s %d)) %s)", vc.heap(st, hn, hs), res, res, ln, j, elems[j]))
		}
	}
}

func (vc *VC) execCopy(x *ssa.Call, c *ssa.CallCommon, st *State) {
	dst, src := vc.val(c.Args[0]), vc.val(c.Args[1])
	et := c.Args[0].Type().Underlying().(*types.Slice).Elem()
	es := vc.d.sortOf(et)
	hn, hs := vc.d.elemHeap(et)
	E := vc.define("E.pre", hs, vc.heap(st, hn, hs))
	srcLen := "(s-len " + src + ")"
	srcIsString := false
	if _, ok := c.Args[1].Type().Underlying().(*types.Basic); ok {
		srcIsString = true
		srcLen = "(strlen " + src + ")"
	}
	n := vc.define("copy.n", "Int", fmt.Sprintf("(ite (<= (s-len %s) %s) (s-len %s) %s)", dst, srcLen, dst, srcLen))
	srcElem := func(j string) string {
		if srcIsString {
			vc.d.declFun("bytes.of.str", "(declare-fun bytes.of.str (Int) (Array Int Int))")
			return fmt.Sprintf("(select (bytes.of.str %s) %s)", src, j)
		}
		return fmt.Sprintf("(select (select %s (s-arr %s)) (+ (s-off %s) %s))", E, src, src, j)
	}
	nc := vc.fresh("copy.dst", "(Array Int "+es+")")
	old := fmt.Sprintf("(select %s (s-arr %s))", E, dst)
	vc.assume(fmt.Sprintf("(forall ((k!c Int)) (! (=> (and (<= (s-off %s) k!c) (< k!c (+ (s-off %s) %s))) (= (select %s k!c) %s)) :pattern ((select %s k!c))))",
		dst, dst, n, nc, srcElem("(- k!c (s-off "+dst+"))"), nc))
	vc.assume(fmt.Sprintf("(forall ((i!c Int)) (! (=> (or (< i!c (s-off %s)) (>= i!c (+ (s-off %s) %s))) (= (select %s i!c) (select %s i!c))) :pattern ((select %s i!c))))",
		dst, dst, n, nc, old, nc))
	vc.noteWrite(st, hn, "(s-arr "+dst+")")
	// a nil destination copies nothing
	vc.setHeap(st, hn, hs, fmt.Sprintf("(ite (= %s 0) %s (store %s (s-arr %s) %s))", n, E, E, dst, nc))
	if x != nil {
		vc.vals[x] = n
	}
	// keep array-backed locations in sync
	for arr, bl := range vc.sliceBack {
		vc.store(st, bl, fmt.Sprintf("(ite (= (s-arr %s) %s) (select %s %s) %s)", dst, arr, vc.heap(st, hn, hs), arr, vc.load(st, bl)))
	}
}

func (vc *VC) execAtomic(x *ssa.Call, f *ssa.Function, c *ssa.CallCommon, st *State) {
	vc.noteTrusted("sync/atomic operations are plain memory accesses (sequential semantics)")
	name := f.Name()
	l := vc.locOfPointer(c.Args[0])
	T := derefType(c.Args[0].Type())
	switch {
	case strings.HasPrefix(name, "Load"):
		vc.setVal(x, vc.load(st, l))
		vc.assumeRange(vc.vals[x], x.Type(), st, "")
	case strings.HasPrefix(name, "Store"):
		vc.store(st, l, vc.val(c.Args[1]))
	case strings.HasPrefix(name, "Add"):
		nv := vc.define("atomic.add", "Int", wrapNear(fmt.Sprintf("(+ %s %s)", vc.load(st, l), vc.val(c.Args[1])), T))
		vc.store(st, l, nv)
		if x != nil {
			vc.vals[x] = nv
		}
	case strings.HasPrefix(name, "CompareAndSwap"):
		ok := vc.define("cas.ok", "Bool", fmt.Sprintf("(= %s %s)", vc.load(st, l), vc.val(c.Args[1])))
		vc.store(st, l, fmt.Sprintf("(ite %s %s %s)", ok, vc.val(c.Args[2]), vc.load(st, l)))
		if x != nil {
			vc.vals[x] = ok
		}
	case strings.HasPrefix(name, "Swap"):
		oldv := vc.define("swap.old", vc.d.sortOf(T), vc.load(st, l))
		vc.store(st, l, vc.val(c.Args[1]))
		if x != nil {
			vc.vals[x] = oldv
		}
	default:
		vc.fail("atomic.%s", name)
	}
}

func (vc *VC) execAtomicMethod(x *ssa.Call, f *ssa.Function, c *ssa.CallCommon, st *State) {
	vc.noteTrusted("sync/atomic operations are plain memory accesses (sequential semantics)")
	// (*atomic.Uint32).Load etc: the struct has a single value field "v"
	base := vc.locOfPointer(c.Args[0])
	S := derefType(c.Args[0].Type())
	s, _ := isStruct(S)
	fi := -1
	for i := 0; i < s.NumFields(); i++ {
		if s.Field(i).Name() == "v" {
			fi = i
		}
	}
	if fi < 0 {
		vc.fail("atomic type %s", S)
	}
	l := vc.fieldLoc(base, fi)
	T := s.Field(fi).Type()
	switch f.Name() {
	case "Load":
		t := vc.load(st, l)
		if vc.d.sortOf(x.Type()) == "Bool" && vc.d.sortOf(T) == "Int" {
			t = fmt.Sprintf("(not (= %s 0))", t)
		}
		vc.setVal(x, t)
		vc.assumeRange(vc.vals[x], x.Type(), st, "")
	case "Store":
		v := vc.val(c.Args[1])
		if vc.d.sortOf(c.Args[1].Type()) == "Bool" && vc.d.sortOf(T) == "Int" {
			v = fmt.Sprintf("(ite %s 1 0)", v)
		}
		vc.store(st, l, v)
	case "Add":
		nv := vc.define("atomic.add", "Int", wrapNear(fmt.Sprintf("(+ %s %s)", vc.load(st, l), vc.val(c.Args[1])), T))
		vc.store(st, l, nv)
		if x != nil {
			vc.vals[x] = nv
		}
	default:
		vc.fail("atomic method %s", f.Name())
	}
}

// ---------- return / panic ----------

func (vc *VC) execReturn(x *ssa.Return, st *State) {
	if vc.inl != nil {
		var rs []string
		for _, r := range x.Results {
			rs = append(rs, vc.val(r))
		}
		vc.inl.rets = append(vc.inl.rets, inlineRet{cond: vc.reach[vc.curBlock], st: st.clone(), results: rs, from: vc.curBlock})
		return
	}
	if vc.discovery {
		return
	}
	reach := vc.reach[vc.curBlock]
	var resVals []SVal
	for _, r := range x.Results {
		resVals = append(resVals, SVal{t: vc.val(r), typ: r.Type(), sort: vc.d.sortOf(r.Type())})
	}
	env := &Env{vc: vc, cur: st, old: vc.entry, vars: map[string]SVal{}, results: resVals, block: vc.curBlock}
	for _, g := range vc.spec.Ghosts {
		vc.ghostAssign(env, st, g)
	}
	for _, h := range vc.spec.Hints {
		vc.tryHint(env, h, reach)
	}
	o := vc.oblige("vacuity.return", "", reach, "true", "return is reachable under the contract assumptions")
	o.expect = "sat"
	nob := len(vc.obligations)
	for i, c := range vc.spec.Ensures {
		f := env.evalBool(c.E)
		env.flushSide(reach)
		vc.oblige("ensures", labelOr(c.Name, i), reach, f, c.Src)
	}
	for i, c := range vc.spec.Preserves {
		f := env.evalBool(c.E)
		env.flushSide(reach)
		vc.oblige("preserves", labelOr(c.Name, i), reach, f, c.Src)
	}
	if vc.spec.Panics != nil {
		e0 := vc.entryEnv(vc.entry)
		f := e0.evalBool(vc.spec.Panics.E)
		e0.flushSide(reach)
		vc.oblige("panics.return", "", reach, "(not "+f+")", "normal return implies !("+vc.spec.Panics.Src+")")
	}
	if len(vc.w.guards) > 0 && !vc.spec.LocksHeld {
		// lock discipline: a function returns with the locks it was called with (unless its contract says 'locks held')
		for _, hn := range []string{"GH.lkW", "GH.lkR"} {
			if cur, ok := st.heaps[hn]; ok && cur != hn+"!0" {
				vc.oblige("lock.balanced", "", reach, fmt.Sprintf("(= %s %s!0)", cur, hn), "every lock taken by the function is released on return ("+hn+")")
			}
		}
	}
	vc.frameObligations(st, reach)
	snap := st.clone()
	for _, ob := range vc.obligations[nob:] {
		ob.retInstr = x
		ob.st = snap
	}
}

func (vc *VC) execPanic(x *ssa.Panic, st *State) {
	if vc.discovery {
		return
	}
	reach := vc.reach[vc.curBlock]
	if vc.spec.Panics != nil {
		e0 := vc.entryEnv(vc.entry)
		f := e0.evalBool(vc.spec.Panics.E)
		e0.flushSide(reach)
		vc.oblige("panics.site", "", reach, f, "panic only when "+vc.spec.Panics.Src)
		return
	}
	if vc.spec.MayPanic {
		// partial correctness: the contract only speaks about normal returns
		vc.notes = append(vc.notes, "explicit panic allowed by 'maypanic'")
		return
	}
	vc.oblige("panic.unreachable", "", reach, "false", "explicit panic is unreachable")
}

// frameObligations: every heap location that existed at entry and is not in the
// modifies clause has its entry value at return.
func (vc *VC) frameObligations(st *State, reach string) {
	e0 := vc.entryEnv(vc.entry)
	var mls []modLoc
	for _, m := range vc.spec.Modifies {
		mls = append(mls, e0.evalLocs(m)...)
	}
	e0.flushSide(reach)
	var names []string
	for n := range st.heaps {
		names = append(names, n)
	}
	sort.Strings(names)
	for _, n := range names {
		srt := vc.heapSorts[n]
		cur := st.heaps[n]
		init := n + "!0"
		if cur == init || n == "GH.lkW" || n == "GH.lkR" || n == "GH.lkRel" {
			continue // (the lock state is checked by lock.balanced, not by the frame)
		}
		whole := false
		var keys []modLoc
		for _, ml := range mls {
			if ml.isMap {
				dn, vn, ln, _, _ := vc.d.mapHeaps(ml.mt)
				if n == dn || n == vn || n == ln {
					keys = append(keys, ml)
				}
				continue
			}
			if ml.heap == n {
				if ml.whole {
					whole = true
				}
				keys = append(keys, ml)
			}
		}
		if whole {
			continue
		}
		if !strings.HasPrefix(srt, "(Array") {
			vc.oblige("frame", n, reach, fmt.Sprintf("(= %s %s)", cur, init), "global/ghost cell "+n+" unchanged (not in modifies)")
			continue
		}
		r := "r!frame." + sanitize(n)
		keySort := "Int"
		if strings.HasPrefix(n, "GH.") {
			// ghost arrays may be keyed by any sort
			keySort = arrayKeySort(srt)
		}
		vc.d.declFun(r, fmt.Sprintf("(declare-const %s %s)", r, keySort))
		var conj []string
		switch {
		case strings.HasPrefix(n, "E."):
			// (the nil array 0 has no elements: a nil slice has length 0)
			conj = append(conj, fmt.Sprintf("(< (base %s) alloc!0)", r), fmt.Sprintf("(>= (base %s) 0)", r), fmt.Sprintf("(> %s 0)", r))
		case strings.HasPrefix(n, "GH."):
			// ghost state attached to objects (key type is a pointer or map type): the entries of objects allocated by
			// this activation are new, not part of the caller-visible frame
			if gd := vc.w.ghosts[strings.TrimPrefix(n, "GH.")]; gd != nil && (strings.HasPrefix(strings.TrimSpace(gd.Key), "*") || strings.HasPrefix(strings.TrimSpace(gd.Key), "map[")) {
				conj = append(conj, fmt.Sprintf("(< (base %s) alloc!0)", r))
			}
		default:
			conj = append(conj, fmt.Sprintf("(< (base %s) alloc!0)", r), fmt.Sprintf("(>= (base %s) 0)", r))
		}
		if strings.HasPrefix(n, "E.") {
			i := "i!frame." + sanitize(n)
			vc.d.declFun(i, fmt.Sprintf("(declare-const %s Int)", i))
			for _, k := range keys {
				if k.idx == "" {
					conj = append(conj, fmt.Sprintf("(not (= %s %s))", r, k.key))
				} else {
					conj = append(conj, fmt.Sprintf("(not (and (= %s %s) (= %s %s)))", r, k.key, i, k.idx))
				}
			}
			goal := fmt.Sprintf("(=> %s (= (select (select %s %s) %s) (select (select %s %s) %s)))", andTerms(conj), cur, r, i, init, r, i)
			vc.oblige("frame", n, reach, goal, "elements of "+n+" outside the modifies clause are unchanged")
			continue
		}
		if strings.HasPrefix(n, "MD.") || strings.HasPrefix(n, "MV.") {
			k := "k!frame." + sanitize(n)
			vc.d.declFun(k, fmt.Sprintf("(declare-const %s %s)", k, arrayKeySort(innerSort(srt))))
			for _, ml := range keys {
				if ml.mapKey == "" {
					conj = append(conj, fmt.Sprintf("(not (= %s %s))", r, ml.key))
				} else {
					conj = append(conj, fmt.Sprintf("(not (and (= %s %s) (= %s %s)))", r, ml.key, k, ml.mapKey))
				}
			}
			goal := fmt.Sprintf("(=> %s (= (select (select %s %s) %s) (select (select %s %s) %s)))", andTerms(conj), cur, r, k, init, r, k)
			if strings.HasPrefix(n, "MV.") {
				// values only matter where the key is present
				dn := "MD." + strings.TrimPrefix(n, "MV.")
				dsrt := vc.heapSorts[dn]
				if dsrt != "" {
					goal = fmt.Sprintf("(=> %s (=> (select (select %s %s) %s) (= (select (select %s %s) %s) (select (select %s %s) %s))))",
						andTerms(conj), vc.heap(st, dn, dsrt), r, k, cur, r, k, init, r, k)
				}
			}
			vc.oblige("frame", n, reach, goal, "entries of maps outside the modifies clause are unchanged")
			continue
		}
		for _, ml := range keys {
			conj = append(conj, fmt.Sprintf("(not (= %s %s))", r, ml.key))
		}
		goal := fmt.Sprintf("(=> %s (= (select %s %s) (select %s %s)))", andTerms(conj), cur, r, init, r)
		vc.oblige("frame", n, reach, goal, n+" outside the modifies clause is unchanged")
	}
}

func arrayKeySort(arraySort string) string {
	// "(Array K V)" -> K  (K may be parenthesised)
	s := strings.TrimPrefix(arraySort, "(Array ")
	if strings.HasPrefix(s, "(") {
		d := 0
		for i, c := range s {
			if c == '(' {
				d++
			}
			if c == ')' {
				d--
				if d == 0 {
					return s[:i+1]
				}
			}
		}
	}
	return strings.Fields(s)[0]
}

// tryHint applies a function-level hint at a return; a hint that mentions locals
// which do not exist on this path is skipped (it is not applicable there).
func (vc *VC) tryHint(env *Env, h Hint, reach string) {
	nl := len(vc.lines)
	defer func() {
		if r := recover(); r != nil {
			if u, ok := r.(unsupported); ok && (strings.Contains(u.msg, "unknown name") || strings.Contains(u.msg, "iterold outside")) {
				vc.lines = vc.lines[:nl]
				env.side = nil
				return
			}
			panic(r)
		}
	}()
	env.applyHint(h, reach)
}

// ---------- in-place execution of contract-less callees ----------

type inlineRet struct {
	cond    string
	st      *State
	results []string
	from    *ssa.BasicBlock
}

type inlineFrame struct {
	parent *inlineFrame
	fn   *ssa.Function
	rets []inlineRet
}

// inlinable: a function of this repository without loops, defers, goroutines or free variables, of moderate size.
func inlinable(f *ssa.Function) ([]*ssa.BasicBlock, bool) {
	if f == nil || len(f.Blocks) == 0 || len(f.Blocks) > 60 || len(f.FreeVars) > 0 || f.Recover != nil {
		return nil, false
	}
	for _, b := range f.Blocks {
		for _, s := range b.Succs {
			if s.Dominates(b) {
				return nil, false // loop
			}
		}
		for _, in := range b.Instrs {
			switch in.(type) {
			case *ssa.Defer, *ssa.Go, *ssa.RunDefers, *ssa.Select:
				return nil, false
			}
		}
	}
	// reverse postorder
	seen := map[*ssa.BasicBlock]bool{}
	var post []*ssa.BasicBlock
	var dfs func(b *ssa.BasicBlock)
	dfs = func(b *ssa.BasicBlock) {
		seen[b] = true
		for _, s := range b.Succs {
			if !seen[s] {
				dfs(s)
			}
		}
		post = append(post, b)
	}
	dfs(f.Blocks[0])
	for i, j := 0, len(post)-1; i < j; i, j = i+1, j-1 {
		post[i], post[j] = post[j], post[i]
	}
	return post, true
}

// inlineCall executes the body of a callee that has no contract at the call site (loop-free callees only).
// Its safety obligations and explicit panics are charged to the caller.
func (vc *VC) inlineCall(x *ssa.Call, f *ssa.Function, c *ssa.CallCommon, st *State) bool {
	if f.Pkg != nil && len(f.Blocks) == 0 {
		vc.w.build(f.Pkg.Pkg.Path())
	}
	order, ok := inlinable(f)
	if !ok || vc.inlDepth >= 4 {
		return false
	}
	if f.Pkg == nil || !strings.HasPrefix(f.Pkg.Pkg.Path()+"/", modPrefix) {
		return false
	}
	for fr := vc.inl; fr != nil; fr = fr.parent {
		if fr.fn == f {
			return false
		}
	}
	if len(c.Args) != len(f.Params) {
		return false
	}
	for i, p := range f.Params {
		vc.vals[p] = vc.val(c.Args[i])
		if l, ok := vc.locs[c.Args[i]]; ok {
			vc.locs[p] = l
		}
		if ci, ok := vc.clos[c.Args[i]]; ok {
			vc.clos[p] = ci
		}
	}
	savedInl, savedBlock, savedActive, savedState := vc.inl, vc.curBlock, vc.active, vc.curState
	callReach := vc.reach[vc.curBlock]
	fr := &inlineFrame{fn: f, parent: vc.inl}
	vc.inl = fr
	vc.inlDepth++
	vc.reach[f.Blocks[0]] = callReach
	vc.notes = append(vc.notes, "callee without contract executed in place: "+funcKey(f))
	work := st.clone()
	vc.execBlocks(order, work)
	vc.inl = savedInl
	vc.inlDepth--
	vc.curBlock, vc.active, vc.curState = savedBlock, savedActive, savedState
	if len(fr.rets) == 0 {
		vc.fail("callee %s executed in place never returns", funcKey(f))
	}
	var edges []inEdge
	var conds []string
	for _, r := range fr.rets {
		edges = append(edges, inEdge{r.cond, r.st, r.from})
		conds = append(conds, r.cond)
	}
	merged := vc.mergeStates(edges)
	st.heaps = merged.heaps
	st.alloc = merged.alloc
	// paths on which the callee panicked do not continue
	vc.assumeIf(callReach, orTerms(conds))
	if x != nil {
		n := f.Signature.Results().Len()
		res := make([]string, n)
		for k := 0; k < n; k++ {
			t := fr.rets[len(fr.rets)-1].results[k]
			for i := len(fr.rets) - 2; i >= 0; i-- {
				if fr.rets[i].results[k] == t {
					continue
				}
				t = fmt.Sprintf("(ite %s %s %s)", fr.rets[i].cond, fr.rets[i].results[k], t)
			}
			res[k] = vc.define("inl."+f.Name(), vc.d.sortOf(f.Signature.Results().At(k).Type()), t)
		}
		switch {
		case n == 1:
			vc.vals[x] = res[0]
		case n > 1:
			vc.tuples[x] = res
		}
	}
	return true
}
