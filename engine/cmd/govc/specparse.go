package main

// Contract language: files of //@ lines (see DESIGN.md appendix C).
// This file: lexer, Pratt expression parser, item parser.

import (
	"fmt"
	"os"
	"strings"
	"unicode"
)

// ---------- expression AST ----------

type Expr interface{}

type (
	EIdent  struct{ Name string }
	EInt    struct{ Val string }
	EBool   struct{ Val bool }
	EStr    struct{ Val string }
	EUnary  struct {
		Op string
		X  Expr
	}
	EBinary struct {
		Op   string
		X, Y Expr
	}
	ECall struct {
		Fun  Expr
		Args []Expr
	}
	ESelect struct {
		X    Expr
		Name string
	}
	EIndex struct{ X, I Expr }
	ESlice struct{ X, Lo, Hi Expr }
	EUpd   struct{ X, I, V Expr }
	// a typed binder "x T" as first arg of forall/exists
	ETyped struct {
		Name string
		Type string
	}
)

type tok struct {
	kind string // id int str op eof
	s    string
}

type lexer struct {
	src  string
	pos  int
	toks []tok
}

func lexExpr(src string) ([]tok, error) {
	var toks []tok
	i := 0
	for i < len(src) {
		c := src[i]
		switch {
		case c == ' ' || c == '\t' || c == '\n':
			i++
		case unicode.IsLetter(rune(c)) || c == '_' || c == '$':
			j := i
			for j < len(src) && (unicode.IsLetter(rune(src[j])) || unicode.IsDigit(rune(src[j])) || src[j] == '_' || src[j] == '$') {
				j++
			}
			toks = append(toks, tok{"id", src[i:j]})
			i = j
		case unicode.IsDigit(rune(c)):
			j := i
			for j < len(src) && (unicode.IsDigit(rune(src[j])) || src[j] == 'x' || (src[j] >= 'a' && src[j] <= 'f') || (src[j] >= 'A' && src[j] <= 'F')) {
				j++
			}
			toks = append(toks, tok{"int", src[i:j]})
			i = j
		case c == '"':
			j := i + 1
			for j < len(src) && src[j] != '"' {
				j++
			}
			if j >= len(src) {
				return nil, fmt.Errorf("unterminated string in %q", src)
			}
			toks = append(toks, tok{"str", src[i+1 : j]})
			i = j + 1
		default:
			ops := []string{"<==>", "==>", ":=", "==", "!=", "<=", ">=", "&&", "||", "<<", ">>", "+", "-", "*", "/", "%", "<", ">", "!", "(", ")", "[", "]", ",", ".", ":", "{", "}", "&", "|", "^"}
			found := false
			for _, op := range ops {
				if strings.HasPrefix(src[i:], op) {
					toks = append(toks, tok{"op", op})
					i += len(op)
					found = true
					break
				}
			}
			if !found {
				return nil, fmt.Errorf("bad char %q in %q", c, src)
			}
		}
	}
	toks = append(toks, tok{"eof", ""})
	return toks, nil
}

type eparser struct {
	toks []tok
	p    int
	src  string
}

func (p *eparser) peek() tok { return p.toks[p.p] }
func (p *eparser) next() tok { t := p.toks[p.p]; p.p++; return t }
func (p *eparser) isOp(s string) bool {
	t := p.peek()
	return t.kind == "op" && t.s == s
}
func (p *eparser) expect(s string) error {
	if !p.isOp(s) {
		return fmt.Errorf("expected %q at token %d (%q) in %q", s, p.p, p.peek().s, p.src)
	}
	p.p++
	return nil
}

var binPrec = map[string]int{
	"<==>": 1, "==>": 2, "||": 3, "&&": 4,
	"==": 5, "!=": 5, "<": 5, "<=": 5, ">": 5, ">=": 5,
	"+": 6, "-": 6, "|": 6, "^": 6,
	"*": 7, "/": 7, "%": 7, "<<": 7, ">>": 7, "&": 7,
}

func ParseExpr(src string) (Expr, error) {
	toks, err := lexExpr(src)
	if err != nil {
		return nil, err
	}
	p := &eparser{toks: toks, src: src}
	e, err := p.parseBin(1)
	if err != nil {
		return nil, err
	}
	if p.peek().kind != "eof" {
		return nil, fmt.Errorf("trailing tokens at %q in %q", p.peek().s, src)
	}
	return e, nil
}

func (p *eparser) parseBin(minPrec int) (Expr, error) {
	lhs, err := p.parseUnary()
	if err != nil {
		return nil, err
	}
	for {
		t := p.peek()
		if t.kind != "op" {
			break
		}
		prec, ok := binPrec[t.s]
		if !ok || prec < minPrec {
			break
		}
		p.next()
		var rhs Expr
		if t.s == "==>" || t.s == "<==>" { // right assoc
			rhs, err = p.parseBin(prec)
		} else {
			rhs, err = p.parseBin(prec + 1)
		}
		if err != nil {
			return nil, err
		}
		lhs = &EBinary{t.s, lhs, rhs}
	}
	return lhs, nil
}

func (p *eparser) parseUnary() (Expr, error) {
	if p.isOp("!") || p.isOp("-") {
		op := p.next().s
		x, err := p.parseUnary()
		if err != nil {
			return nil, err
		}
		return &EUnary{op, x}, nil
	}
	return p.parsePostfix()
}

func (p *eparser) parsePostfix() (Expr, error) {
	var e Expr
	t := p.next()
	switch t.kind {
	case "id":
		switch t.s {
		case "true":
			e = &EBool{true}
		case "false":
			e = &EBool{false}
		default:
			e = &EIdent{t.s}
		}
	case "int":
		e = &EInt{t.s}
	case "str":
		e = &EStr{t.s}
	case "op":
		if t.s == "(" {
			x, err := p.parseBin(1)
			if err != nil {
				return nil, err
			}
			if err := p.expect(")"); err != nil {
				return nil, err
			}
			e = x
		} else {
			return nil, fmt.Errorf("unexpected %q in %q", t.s, p.src)
		}
	default:
		return nil, fmt.Errorf("unexpected end in %q", p.src)
	}
	for {
		switch {
		case p.isOp("."):
			p.next()
			n := p.next()
			if n.kind != "id" {
				return nil, fmt.Errorf("field name expected in %q", p.src)
			}
			e = &ESelect{e, n.s}
		case p.isOp("("):
			p.next()
			var args []Expr
			for !p.isOp(")") {
				// typed binder: id typeexpr , ...   (only directly inside forall/exists)
				if id, ok := e.(*EIdent); ok && (id.Name == "forall" || id.Name == "exists") && len(args) == 0 {
					if tb, ok := p.tryTypedBinder(); ok {
						args = append(args, tb)
						if p.isOp(",") {
							p.next()
						}
						continue
					}
				}
				a, err := p.parseBin(1)
				if err != nil {
					return nil, err
				}
				args = append(args, a)
				if p.isOp(",") {
					p.next()
				} else if !p.isOp(")") {
					return nil, fmt.Errorf("expected , or ) at %q in %q", p.peek().s, p.src)
				}
			}
			p.next()
			e = &ECall{e, args}
		case p.isOp("["):
			p.next()
			if p.isOp(":") {
				p.next()
				var hi Expr
				if !p.isOp("]") {
					h, err := p.parseBin(1)
					if err != nil {
						return nil, err
					}
					hi = h
				}
				if err := p.expect("]"); err != nil {
					return nil, err
				}
				e = &ESlice{e, nil, hi}
				continue
			}
			if p.isOp("*") && p.toks[p.p+1].kind == "op" && p.toks[p.p+1].s == "]" {
				p.next()
				p.next()
				e = &EIndex{e, &EIdent{"*"}}
				continue
			}
			i, err := p.parseBin(1)
			if err != nil {
				return nil, err
			}
			if p.isOp(":=") {
				p.next()
				v, err := p.parseBin(1)
				if err != nil {
					return nil, err
				}
				if err := p.expect("]"); err != nil {
					return nil, err
				}
				e = &EUpd{e, i, v}
				continue
			}
			if p.isOp(":") {
				p.next()
				var hi Expr
				if !p.isOp("]") {
					h, err := p.parseBin(1)
					if err != nil {
						return nil, err
					}
					hi = h
				}
				if err := p.expect("]"); err != nil {
					return nil, err
				}
				e = &ESlice{e, i, hi}
				continue
			}
			if err := p.expect("]"); err != nil {
				return nil, err
			}
			e = &EIndex{e, i}
		default:
			return e, nil
		}
	}
}

// tryTypedBinder: "x T ," where T is a type expression (no comma inside except map[..])
func (p *eparser) tryTypedBinder() (Expr, bool) {
	save := p.p
	n := p.peek()
	if n.kind != "id" {
		return nil, false
	}
	p.next()
	// a following "," means plain ident (bounded form forall(i, lo, hi, P))
	if p.isOp(",") || p.isOp(")") {
		p.p = save
		return nil, false
	}
	// collect tokens up to top-level ","
	depth := 0
	var sb strings.Builder
	for {
		t := p.peek()
		if t.kind == "eof" {
			p.p = save
			return nil, false
		}
		if t.kind == "op" && (t.s == "[" || t.s == "(") {
			depth++
		}
		if t.kind == "op" && (t.s == "]" || t.s == ")") {
			if depth == 0 {
				p.p = save
				return nil, false
			}
			depth--
		}
		if depth == 0 && t.kind == "op" && t.s == "," {
			break
		}
		sb.WriteString(t.s)
		p.next()
	}
	ts := sb.String()
	// must look like a type: starts with letter, [, *, or "map"
	if ts == "" {
		p.p = save
		return nil, false
	}
	return &ETyped{n.s, ts}, true
}

// ---------- items ----------

type Param struct {
	Name string
	Type string
}

type SpecFunc struct {
	Name      string
	Params    []Param
	Ret       string
	Body      Expr // nil = uninterpreted (abstract)
	Recursive bool
	Opaque    bool
	File      string
	Pkg       string
	depsDone  bool
	deps      []heapDep
}

type Hint struct {
	Kind string // use, unfold, assert
	E    Expr
	Name string // optional label of an assert: "assert [name] e"
}

type Lemma struct {
	Name      string
	Params    []Param
	Induction string
	Hints     []Hint
	Requires  []Expr
	Ensures   []Expr
	Trusted   bool
	File      string
	Src       string
	Pkg       string
}

type InvDef struct {
	Abstract bool
	Exports  Expr
	asSpec   *SpecFunc
	Type string
	Name string
	Var  string
	Body Expr
	Pkg  string
}

// GuardDef: field Field of struct Struct (package Pkg) may only be read while the mutex in field Lock of the same struct
// is held (read or write mode) and only be written while it is held in write mode.
type GuardDef struct {
	Struct, Field, Lock, Pkg string
}

type LoopSpec struct {
	Invariants []Clause
	Assumes    []Clause // assumed (never checked) at the loop head; reported as an assumption in the evidence
	Decreases  Expr
	Modifies   []Expr
	Hints      []Hint
	ExitHints  []Hint
}

type Clause struct {
	E    Expr
	Src  string
	Name string // optional label "[name]"
}

type AtCall struct {
	Callee   string
	N        int
	Requires []Clause
	Assumes  []Clause // resource assumption at this call site (never checked; reported in the evidence)
	Hints    []Hint
	GhostPre []GhostUpd
	GhostPost []GhostUpd
	Modifies  []Expr
}

type GhostUpd struct {
	LHS Expr
	RHS Expr
}

type FuncSpec struct {
	Name     string // ssa name relative to package, e.g. (*Validators).Quorum, NewFunc, openDB$1
	Kind     string // func, iface, funcfield
	Trusted  bool
	Pure     bool
	AliasPkg string // iface alias: package of the concrete method
	Requires []Clause
	Ensures  []Clause
	Modifies []Expr
	LocksHeld bool // 'locks held': the function may return with a different lock state (no lock.balanced obligation)
	Preserves []Clause // closures: an invariant over the captured variables that every invocation keeps (assumed at entry, proved at every return); a caller that hands the closure to a callback proves it before the call and may assume it afterwards
	Captures []Clause // closures: facts about the captured variables, proved where the closure is created, assumed at its entry
	Interference []Expr // locations other goroutines may change while this one blocks on a channel operation
	Panics   *Clause
	NoPanic  bool
	MayPanic bool
	Hints    []Hint
	Loops    map[int]*LoopSpec
	AtCalls  []*AtCall
	Params   []string // for trusted external funcs / funcfields: formal names (optional override)
	Pkg      string   // package path where declared
	File     string
	Allocates bool
	View      string // non-empty: secondary contract (see viewfunc)
	AliasOf   string // funcfield only: the function value is always the closure with this package-relative name; its contract applies
	Ghosts   []GhostUpd // ghost updates applied at return (ensures-level)
}

type GhostDecl struct {
	Pkg  string // package scope of the declaration
	Name string
	Key  string // key type ("" = scalar)
	Val  string
}

type ContractFile struct {
	Path    string
	Pkg     string // import path of the package the contracts apply to
	Consts  map[string]string
	Specs   []*SpecFunc
	Lemmas  []*Lemma
	Invs    []*InvDef
	Guards  []*GuardDef // guarded Struct.field by lockfield
	ChanInvs []*InvDef // chaninv Struct.field(v): expr -- Type is "Struct.field"
	Funcs   []*FuncSpec
	Ghosts  []*GhostDecl
	Opaque  []string
}

func splitParams(s string) ([]Param, error) {
	s = strings.TrimSpace(s)
	if s == "" {
		return nil, nil
	}
	var out []Param
	depth := 0
	start := 0
	var parts []string
	for i, c := range s {
		switch c {
		case '[', '(':
			depth++
		case ']', ')':
			depth--
		case ',':
			if depth == 0 {
				parts = append(parts, s[start:i])
				start = i + 1
			}
		}
	}
	parts = append(parts, s[start:])
	for _, p := range parts {
		p = strings.TrimSpace(p)
		f := strings.SplitN(p, " ", 2)
		if len(f) == 1 {
			out = append(out, Param{f[0], ""})
		} else {
			out = append(out, Param{f[0], strings.TrimSpace(f[1])})
		}
	}
	// propagate types backwards ("T, S int")
	for i := len(out) - 2; i >= 0; i-- {
		if out[i].Type == "" {
			out[i].Type = out[i+1].Type
		}
	}
	return out, nil
}

// stripComment removes a trailing "// ..." from a contract line (outside strings).
func stripComment(s string) string {
	in := false
	for i := 0; i+1 < len(s); i++ {
		if s[i] == '"' {
			in = !in
		}
		if !in && s[i] == '/' && s[i+1] == '/' {
			return s[:i]
		}
	}
	return s
}

func parseHints(s string) ([]Hint, error) {
	var out []Hint
	depth := 0
	start := 0
	var parts []string
	for i, c := range s {
		switch c {
		case '(', '[':
			depth++
		case ')', ']':
			depth--
		case ';':
			if depth == 0 {
				parts = append(parts, s[start:i])
				start = i + 1
			}
		}
	}
	parts = append(parts, s[start:])
	for _, p := range parts {
		p = strings.TrimSpace(p)
		if p == "" {
			continue
		}
		f := strings.SplitN(p, " ", 2)
		if len(f) != 2 || (f[0] != "use" && f[0] != "unfold" && f[0] != "assert") {
			return nil, fmt.Errorf("bad hint %q", p)
		}
		name := ""
		if body := strings.TrimSpace(f[1]); f[0] == "assert" && strings.HasPrefix(body, "[") {
			if k := strings.Index(body, "]"); k > 0 {
				name = body[1:k]
				f[1] = body[k+1:]
			}
		}
		e, err := ParseExpr(f[1])
		if err != nil {
			return nil, err
		}
		out = append(out, Hint{f[0], e, name})
	}
	return out, nil
}

func parseClause(s string) (Clause, error) {
	s = strings.TrimSpace(s)
	name := ""
	if strings.HasPrefix(s, "[") {
		j := strings.Index(s, "]")
		if j > 0 && !strings.ContainsAny(s[1:j], " :=") {
			name = s[1:j]
			s = strings.TrimSpace(s[j+1:])
		}
	}
	e, err := ParseExpr(s)
	if err != nil {
		return Clause{}, err
	}
	return Clause{E: e, Src: s, Name: name}, nil
}

func parseExprList(s string) ([]Expr, error) {
	var out []Expr
	depth := 0
	start := 0
	var parts []string
	for i, c := range s {
		switch c {
		case '(', '[':
			depth++
		case ')', ']':
			depth--
		case ',':
			if depth == 0 {
				parts = append(parts, s[start:i])
				start = i + 1
			}
		}
	}
	parts = append(parts, s[start:])
	for _, p := range parts {
		p = strings.TrimSpace(p)
		if p == "" {
			continue
		}
		e, err := ParseExpr(p)
		if err != nil {
			return nil, err
		}
		out = append(out, e)
	}
	return out, nil
}

var clauseKeywords = map[string]bool{"requires": true, "ensures": true, "modifies": true, "panics": true, "pure": true,
	"decreases": true, "hint": true, "loop": true, "at": true, "params": true, "nopanic": true, "maypanic": true, "allocates": true, "ghost": true, "interference": true, "captures": true, "preserves": true, "locks": true}
var itemKeywords = map[string]bool{"const": true, "spec": true, "lemma": true, "inv": true, "chaninv": true, "guarded": true, "invexports": true, "ghost": true, "iface": true,
	"funcfield": true, "func": true, "viewfunc": true, "trusted": true, "package": true, "opaque": true}

// logicalLines joins continuation lines: a line that does not start with a
// keyword continues the previous one.
func logicalLines(raw []string) []string {
	var out []string
	for _, l := range raw {
		l = strings.TrimSpace(stripComment(l))
		if l == "" {
			continue
		}
		first := strings.Fields(l)[0]
		if itemKeywords[first] || clauseKeywords[first] || len(out) == 0 {
			out = append(out, l)
		} else {
			out[len(out)-1] += " " + l
		}
	}
	return out
}

func ParseContractFile(path string, pkgPath string) (*ContractFile, error) {
	data, err := os.ReadFile(path)
	if err != nil {
		return nil, err
	}
	var raw []string
	for _, l := range strings.Split(string(data), "\n") {
		t := strings.TrimSpace(l)
		if strings.HasPrefix(t, "//@") {
			raw = append(raw, strings.TrimPrefix(t, "//@"))
		}
	}
	cf := &ContractFile{Path: path, Pkg: pkgPath, Consts: map[string]string{}}
	lines := logicalLines(raw)
	var cur *FuncSpec
	var curLemma *Lemma
	fail := func(l string, err error) error { return fmt.Errorf("%s: %q: %v", path, l, err) }
	for _, l := range lines {
		fs := strings.Fields(l)
		kw := fs[0]
		rest := strings.TrimSpace(strings.TrimPrefix(l, kw))
		trusted := false
		if kw == "trusted" {
			trusted = true
			kw = fs[1]
			rest = strings.TrimSpace(strings.TrimPrefix(rest, kw))
		}
		switch kw {
		case "package":
			cf.Pkg = rest
			cur, curLemma = nil, nil
			continue
		case "opaque":
			cf.Opaque = append(cf.Opaque, strings.Fields(rest)...)
			continue
		case "const":
			kv := strings.SplitN(rest, "=", 2)
			if len(kv) != 2 {
				return nil, fail(l, fmt.Errorf("const needs ="))
			}
			cf.Consts[strings.TrimSpace(kv[0])] = strings.TrimSpace(kv[1])
			cur, curLemma = nil, nil
			continue
		case "spec":
			// spec name(params) type [= expr]
			i := strings.Index(rest, "(")
			j := matchParen(rest, i)
			if i < 0 || j < 0 {
				return nil, fail(l, fmt.Errorf("bad spec"))
			}
			ps, _ := splitParams(rest[i+1 : j])
			after := strings.TrimSpace(rest[j+1:])
			sf := &SpecFunc{Name: strings.TrimSpace(rest[:i]), Params: ps, File: path, Pkg: cf.Pkg}
			defined := false
			if strings.HasPrefix(sf.Name, "defined ") {
				// 'spec defined f': an uninterpreted symbol whose defining equation is instantiated at every
				// occurrence (as for recursive functions) -- quantified facts about f then have clean patterns
				sf.Name = strings.TrimSpace(strings.TrimPrefix(sf.Name, "defined "))
				defined = true
			}
			if strings.HasPrefix(sf.Name, "opaque ") {
				sf.Name = strings.TrimSpace(strings.TrimPrefix(sf.Name, "opaque "))
				sf.Opaque = true
			}
			if k := strings.Index(after, "="); k >= 0 && !strings.HasPrefix(after[k:], "==") {
				sf.Ret = strings.TrimSpace(after[:k])
				b, err := ParseExpr(after[k+1:])
				if err != nil {
					return nil, fail(l, err)
				}
				sf.Body = b
				sf.Recursive = mentionsCall(b, sf.Name) || defined
			} else {
				sf.Ret = after
			}
			cf.Specs = append(cf.Specs, sf)
			cur, curLemma = nil, nil
			continue
		case "lemma":
			i := strings.Index(rest, "(")
			j := matchParen(rest, i)
			if i < 0 || j < 0 {
				return nil, fail(l, fmt.Errorf("bad lemma"))
			}
			ps, _ := splitParams(rest[i+1 : j])
			lm := &Lemma{Name: strings.TrimSpace(rest[:i]), Params: ps, Trusted: trusted, File: path, Src: l, Pkg: cf.Pkg}
			after := strings.TrimSpace(rest[j+1:])
			if strings.HasPrefix(after, "by induction(") {
				k := strings.Index(after, ")")
				lm.Induction = strings.TrimSpace(after[len("by induction("):k])
				after = strings.TrimSpace(after[k+1:])
			}
			if strings.HasPrefix(after, "{") {
				k := strings.LastIndex(after, "}")
				hs, err := parseHints(after[1:k])
				if err != nil {
					return nil, fail(l, err)
				}
				lm.Hints = hs
				after = strings.TrimSpace(after[k+1:])
			}
			if after != "" {
				return nil, fail(l, fmt.Errorf("trailing text after lemma header: %q", after))
			}
			cf.Lemmas = append(cf.Lemmas, lm)
			curLemma, cur = lm, nil
			continue
		case "inv":
			// inv Type name(x): expr
			k := strings.Index(rest, ":")
			if k < 0 {
				return nil, fail(l, fmt.Errorf("inv needs :"))
			}
			head := strings.TrimSpace(rest[:k])
			hf := strings.Fields(head)
			abstract := false
			if len(hf) == 3 && hf[2] == "abstract" {
				// inv Type name(x) abstract: outside its own package the invariant is an uninterpreted predicate over
				// the memory it reads (clients pass it along, they do not look inside)
				abstract = true
				hf = hf[:2]
			}
			if len(hf) != 2 {
				return nil, fail(l, fmt.Errorf("inv head"))
			}
			i := strings.Index(hf[1], "(")
			b, err := ParseExpr(rest[k+1:])
			if err != nil {
				return nil, fail(l, err)
			}
			cf.Invs = append(cf.Invs, &InvDef{Type: hf[0], Name: hf[1][:i], Var: strings.TrimSuffix(hf[1][i+1:], ")"), Body: b, Pkg: cf.Pkg, Abstract: abstract})
			cur, curLemma = nil, nil
			continue
		case "guarded":
			// guarded Struct.field by lockfield
			f := strings.Fields(rest)
			if len(f) != 3 || f[1] != "by" || !strings.Contains(f[0], ".") {
				return nil, fail(l, fmt.Errorf("guarded Struct.field by lockfield"))
			}
			k := strings.LastIndex(f[0], ".")
			cf.Guards = append(cf.Guards, &GuardDef{Struct: f[0][:k], Field: f[0][k+1:], Lock: f[2], Pkg: cf.Pkg})
			cur, curLemma = nil, nil
			continue
		case "chaninv":
			// chaninv Struct.field(v): expr -- every value sent on the channel held in that field satisfies expr
			// (obligation at each send), so every value received from it does (assumed at each receive)
			j := strings.Index(rest, "):")
			k := j + 1
			i := -1
			if j >= 0 {
				i = strings.LastIndex(rest[:j], "(")
			}
			if j < 0 || i < 0 {
				return nil, fail(l, fmt.Errorf("chaninv Struct.field(v): expr"))
			}
			b, err := ParseExpr(rest[k+1:])
			if err != nil {
				return nil, fail(l, err)
			}
			cf.ChanInvs = append(cf.ChanInvs, &InvDef{Type: strings.TrimSpace(rest[:i]), Name: "chaninv", Var: strings.TrimSpace(rest[i+1 : j]), Body: b, Pkg: cf.Pkg})
			cur, curLemma = nil, nil
			continue
		case "invexports":
			// invexports name: expr -- consequences of an abstract invariant that clients outside its package may use
			// (that the invariant implies them is a separate lemma obligation)
			k := strings.Index(rest, ":")
			if k < 0 {
				return nil, fail(l, fmt.Errorf("invexports needs :"))
			}
			b, err := ParseExpr(rest[k+1:])
			if err != nil {
				return nil, fail(l, err)
			}
			nm := strings.TrimSpace(rest[:k])
			found := false
			for _, iv := range cf.Invs {
				if iv.Name == nm {
					iv.Exports = b
					found = true
				}
			}
			if !found {
				return nil, fail(l, fmt.Errorf("invexports: no invariant %s in this file", nm))
			}
			cur, curLemma = nil, nil
			continue
		case "viewfunc":
			// viewfunc <view> <function>: a second contract of a function that callers use through its primary
			// (typically trusted, model-level) contract; it is what the function's own body is verified against in a
			// claim that names the view
			f2 := strings.SplitN(rest, " ", 2)
			if len(f2) != 2 {
				return nil, fail(l, fmt.Errorf("viewfunc <view> <function>"))
			}
			cur = &FuncSpec{Name: strings.TrimSpace(f2[1]), Kind: "func", Loops: map[int]*LoopSpec{}, Pkg: cf.Pkg, File: path, View: f2[0]}
			cf.Funcs = append(cf.Funcs, cur)
			curLemma = nil
			continue
		case "func", "iface", "funcfield":
			alias := ""
			if kw == "funcfield" {
				if i := strings.Index(rest, " = closure "); i >= 0 {
					alias = strings.TrimSpace(rest[i+len(" = closure "):])
					rest = strings.TrimSpace(rest[:i])
				}
			}
			aliasPkg := ""
			if kw == "iface" {
				// iface I.m = method <package path> <(*T).m>: every value of the interface is (proved at each call to be)
				// a *T of that package, and the concrete method's contract applies
				if i := strings.Index(rest, " = method "); i >= 0 {
					f2 := strings.Fields(rest[i+len(" = method "):])
					if len(f2) != 2 {
						return nil, fail(l, fmt.Errorf("iface alias: want '= method <package path> <method>'"))
					}
					aliasPkg, alias = f2[0], f2[1]
					rest = strings.TrimSpace(rest[:i])
				}
			}
			cur = &FuncSpec{Name: rest, Kind: kw, Trusted: trusted, Loops: map[int]*LoopSpec{}, Pkg: cf.Pkg, File: path, AliasOf: alias, AliasPkg: aliasPkg}
			cf.Funcs = append(cf.Funcs, cur)
			curLemma = nil
			continue
		case "ghost":
			if cur == nil && curLemma == nil {
				// ghost name[KeyType] ValType   |  ghost name ValType
				g := &GhostDecl{Pkg: cf.Pkg}
				if i := strings.Index(rest, "["); i >= 0 && strings.Index(rest, "]") > i && !strings.Contains(rest[:i], " ") {
					j := matchBracket(rest, i)
					g.Name = rest[:i]
					g.Key = rest[i+1 : j]
					g.Val = strings.TrimSpace(rest[j+1:])
				} else {
					f2 := strings.SplitN(rest, " ", 2)
					g.Name = f2[0]
					g.Val = strings.TrimSpace(f2[1])
				}
				cf.Ghosts = append(cf.Ghosts, g)
				continue
			}
		}
		// clauses
		if curLemma != nil {
			switch kw {
			case "requires", "ensures":
				e, err := ParseExpr(rest)
				if err != nil {
					return nil, fail(l, err)
				}
				if kw == "requires" {
					curLemma.Requires = append(curLemma.Requires, e)
				} else {
					curLemma.Ensures = append(curLemma.Ensures, e)
				}
			case "hint":
				hs, err := parseHints(rest)
				if err != nil {
					return nil, fail(l, err)
				}
				curLemma.Hints = append(curLemma.Hints, hs...)
			default:
				return nil, fail(l, fmt.Errorf("bad lemma clause"))
			}
			continue
		}
		if cur == nil {
			return nil, fail(l, fmt.Errorf("clause outside item"))
		}
		switch kw {
		case "requires", "ensures":
			c, err := parseClause(rest)
			if err != nil {
				return nil, fail(l, err)
			}
			if kw == "requires" {
				cur.Requires = append(cur.Requires, c)
			} else {
				cur.Ensures = append(cur.Ensures, c)
			}
		case "modifies":
			es, err := parseExprList(rest)
			if err != nil {
				return nil, fail(l, err)
			}
			cur.Modifies = append(cur.Modifies, es...)
		case "locks":
			if strings.TrimSpace(rest) != "held" {
				return nil, fail(l, fmt.Errorf("locks held"))
			}
			cur.LocksHeld = true
		case "preserves":
			c, err := parseClause(rest)
			if err != nil {
				return nil, fail(l, err)
			}
			cur.Preserves = append(cur.Preserves, c)
		case "captures":
			r2 := strings.TrimSpace(rest)
			if !strings.HasPrefix(r2, "requires") {
				return nil, fail(l, fmt.Errorf("captures requires <expr>"))
			}
			c, err := parseClause(strings.TrimSpace(strings.TrimPrefix(r2, "requires")))
			if err != nil {
				return nil, fail(l, err)
			}
			cur.Captures = append(cur.Captures, c)
		case "interference":
			es, err := parseExprList(rest)
			if err != nil {
				return nil, fail(l, err)
			}
			cur.Interference = append(cur.Interference, es...)
		case "panics":
			c, err := parseClause(rest)
			if err != nil {
				return nil, fail(l, err)
			}
			cur.Panics = &c
		case "pure":
			cur.Pure = true
		case "maypanic":
			cur.MayPanic = true
		case "nopanic":
			cur.NoPanic = true
		case "allocates":
			cur.Allocates = true
		case "params":
			for _, p := range strings.Split(rest, ",") {
				cur.Params = append(cur.Params, strings.TrimSpace(p))
			}
		case "hint":
			hs, err := parseHints(rest)
			if err != nil {
				return nil, fail(l, err)
			}
			cur.Hints = append(cur.Hints, hs...)
		case "ghost":
			// ghost lhs = rhs  (applied at return, old() = entry)
			kv := splitTopAssign(rest)
			if kv == nil {
				return nil, fail(l, fmt.Errorf("ghost update needs ="))
			}
			le, err := ParseExpr(kv[0])
			if err != nil {
				return nil, fail(l, err)
			}
			re, err := ParseExpr(kv[1])
			if err != nil {
				return nil, fail(l, err)
			}
			cur.Ghosts = append(cur.Ghosts, GhostUpd{le, re})
		case "loop":
			// loop N invariant e | loop N decreases e | loop N modifies locs | loop N hint ...
			f3 := strings.SplitN(rest, " ", 3)
			if len(f3) < 3 {
				return nil, fail(l, fmt.Errorf("bad loop clause"))
			}
			var n int
			fmt.Sscanf(f3[0], "%d", &n)
			ls := cur.Loops[n]
			if ls == nil {
				ls = &LoopSpec{}
				cur.Loops[n] = ls
			}
			switch f3[1] {
			case "invariant":
				c, err := parseClause(f3[2])
				if err != nil {
					return nil, fail(l, err)
				}
				ls.Invariants = append(ls.Invariants, c)
			case "assumes":
				c, err := parseClause(f3[2])
				if err != nil {
					return nil, fail(l, err)
				}
				ls.Assumes = append(ls.Assumes, c)
			case "decreases":
				e, err := ParseExpr(f3[2])
				if err != nil {
					return nil, fail(l, err)
				}
				ls.Decreases = e
			case "modifies":
				es, err := parseExprList(f3[2])
				if err != nil {
					return nil, fail(l, err)
				}
				ls.Modifies = append(ls.Modifies, es...)
			case "hint":
				hs, err := parseHints(f3[2])
				if err != nil {
					return nil, fail(l, err)
				}
				ls.Hints = append(ls.Hints, hs...)
			case "exithint":
				// hints applied on every edge that leaves the loop (break, return, normal exit)
				hs, err := parseHints(f3[2])
				if err != nil {
					return nil, fail(l, err)
				}
				ls.ExitHints = append(ls.ExitHints, hs...)
			default:
				return nil, fail(l, fmt.Errorf("bad loop clause kind"))
			}
		case "at":
			// at call <callee>[N] requires e | hint ... | ghost lhs = rhs before|after
			f := strings.SplitN(rest, " ", 4)
			if len(f) < 4 || f[0] != "call" {
				return nil, fail(l, fmt.Errorf("bad at clause"))
			}
			callee := f[1]
			n := 1
			if i := strings.LastIndex(callee, "["); i >= 0 && strings.HasSuffix(callee, "]") {
				if callee[i+1:len(callee)-1] == "*" {
					n = -1 // every call of the callee in this function
				} else {
					fmt.Sscanf(callee[i+1:len(callee)-1], "%d", &n)
				}
				callee = callee[:i]
			}
			var ac *AtCall
			for _, a := range cur.AtCalls {
				if a.Callee == callee && a.N == n {
					ac = a
				}
			}
			if ac == nil {
				ac = &AtCall{Callee: callee, N: n}
				cur.AtCalls = append(cur.AtCalls, ac)
			}
			switch f[2] {
			case "requires":
				c, err := parseClause(f[3])
				if err != nil {
					return nil, fail(l, err)
				}
				ac.Requires = append(ac.Requires, c)
			case "assumes":
				c, err := parseClause(f[3])
				if err != nil {
					return nil, fail(l, err)
				}
				ac.Assumes = append(ac.Assumes, c)
			case "hint":
				hs, err := parseHints(f[3])
				if err != nil {
					return nil, fail(l, err)
				}
				ac.Hints = append(ac.Hints, hs...)
			case "modifies":
				// caller-declared effect of a blocking call: state other goroutines may change meanwhile
				es, err := parseExprList(f[3])
				if err != nil {
					return nil, fail(l, err)
				}
				ac.Modifies = append(ac.Modifies, es...)
			case "ghost":
				body := f[3]
				when := "after"
				if strings.HasSuffix(body, " before") {
					when = "before"
					body = strings.TrimSuffix(body, " before")
				} else if strings.HasSuffix(body, " after") {
					body = strings.TrimSuffix(body, " after")
				}
				kv := splitTopAssign(body)
				if kv == nil {
					return nil, fail(l, fmt.Errorf("ghost update needs ="))
				}
				le, err := ParseExpr(kv[0])
				if err != nil {
					return nil, fail(l, err)
				}
				re, err := ParseExpr(kv[1])
				if err != nil {
					return nil, fail(l, err)
				}
				if when == "before" {
					ac.GhostPre = append(ac.GhostPre, GhostUpd{le, re})
				} else {
					ac.GhostPost = append(ac.GhostPost, GhostUpd{le, re})
				}
			default:
				return nil, fail(l, fmt.Errorf("bad at clause kind %q", f[2]))
			}
		default:
			return nil, fail(l, fmt.Errorf("unknown keyword %q", kw))
		}
	}
	return cf, nil
}

// splitTopAssign splits "lhs = rhs" at the first top-level single '='.
func splitTopAssign(s string) []string {
	depth := 0
	for i := 0; i < len(s); i++ {
		switch s[i] {
		case '(', '[':
			depth++
		case ')', ']':
			depth--
		case '=':
			if depth == 0 {
				if i+1 < len(s) && s[i+1] == '=' {
					i++
					continue
				}
				if i > 0 && (s[i-1] == '!' || s[i-1] == '<' || s[i-1] == '>' || s[i-1] == ':' || s[i-1] == '=') {
					continue
				}
				return []string{strings.TrimSpace(s[:i]), strings.TrimSpace(s[i+1:])}
			}
		}
	}
	return nil
}

func matchParen(s string, i int) int {
	if i < 0 {
		return -1
	}
	d := 0
	for j := i; j < len(s); j++ {
		if s[j] == '(' {
			d++
		}
		if s[j] == ')' {
			d--
			if d == 0 {
				return j
			}
		}
	}
	return -1
}

func matchBracket(s string, i int) int {
	d := 0
	for j := i; j < len(s); j++ {
		if s[j] == '[' {
			d++
		}
		if s[j] == ']' {
			d--
			if d == 0 {
				return j
			}
		}
	}
	return -1
}

func mentionsCall(e Expr, name string) bool {
	found := false
	walkExpr(e, func(x Expr) {
		if c, ok := x.(*ECall); ok {
			if id, ok := c.Fun.(*EIdent); ok && id.Name == name {
				found = true
			}
		}
	})
	return found
}

func walkExpr(e Expr, f func(Expr)) {
	if e == nil {
		return
	}
	f(e)
	switch x := e.(type) {
	case *EUnary:
		walkExpr(x.X, f)
	case *EBinary:
		walkExpr(x.X, f)
		walkExpr(x.Y, f)
	case *ECall:
		walkExpr(x.Fun, f)
		for _, a := range x.Args {
			walkExpr(a, f)
		}
	case *ESelect:
		walkExpr(x.X, f)
	case *EIndex:
		walkExpr(x.X, f)
		walkExpr(x.I, f)
	case *ESlice:
		walkExpr(x.X, f)
		walkExpr(x.Lo, f)
		walkExpr(x.Hi, f)
	case *EUpd:
		walkExpr(x.X, f)
		walkExpr(x.I, f)
		walkExpr(x.V, f)
	}
}

func exprString(e Expr) string {
	switch x := e.(type) {
	case nil:
		return ""
	case *EIdent:
		return x.Name
	case *EInt:
		return x.Val
	case *EBool:
		return fmt.Sprint(x.Val)
	case *EStr:
		return fmt.Sprintf("%q", x.Val)
	case *EUnary:
		return x.Op + exprString(x.X)
	case *EBinary:
		return "(" + exprString(x.X) + " " + x.Op + " " + exprString(x.Y) + ")"
	case *ECall:
		var as []string
		for _, a := range x.Args {
			as = append(as, exprString(a))
		}
		return exprString(x.Fun) + "(" + strings.Join(as, ", ") + ")"
	case *ESelect:
		return exprString(x.X) + "." + x.Name
	case *EIndex:
		return exprString(x.X) + "[" + exprString(x.I) + "]"
	case *ESlice:
		return exprString(x.X) + "[" + exprString(x.Lo) + ":" + exprString(x.Hi) + "]"
	case *EUpd:
		return exprString(x.X) + "[" + exprString(x.I) + " := " + exprString(x.V) + "]"
	case *ETyped:
		return x.Name + " " + x.Type
	}
	return "?"
}
