package main

// Symbolic execution of individual go/ssa instructions.

import (
	"fmt"
	"go/token"
	"go/types"
	"sort"
	"strings"

	"golang.org/x/tools/go/ssa"
	"golang.org/x/tools/go/ssa/ssautil"
)

func (vc *VC) safety(kind, goal, desc string) {
	vc.oblige("safety."+kind, "", vc.reach[vc.curBlock], goal, desc)
}

func (vc *VC) execInstrs(b *ssa.BasicBlock, st *State) {
	reach := vc.reach[b]
	for _, in := range b.Instrs {
		switch x := in.(type) {
		case *ssa.Phi:
			// handled at block entry
		case *ssa.DebugRef:
		case *ssa.Alloc:
			vc.execAlloc(x, st)
		case *ssa.FieldAddr:
			base := vc.locOfPointer(x.X)
			if base.kind == lStruct {
				vc.safety("nil", fmt.Sprintf("(not (= %s 0))", base.key), "nil dereference at field "+fieldName(x))
			}
			l := vc.fieldLoc(base, x.Field)
			if l.kind == lStruct {
				l.key = vc.define(x.Name(), "Int", l.key)
			}
			vc.locs[x] = l
			vc.noteGuarded(x, base, st)
		case *ssa.IndexAddr:
			vc.execIndexAddr(x, st)
		case *ssa.UnOp:
			vc.execUnOp(x, st)
		case *ssa.BinOp:
			vc.execBinOp(x, st)
		case *ssa.Store:
			l := vc.locOfPointer(x.Addr)
			if l.kind == lGlobal && vc.fn.Name() != "init" {
				// writes to globals are tracked as heap cells
			}
			if (l.kind == lStruct || l.kind == lCell) && len(l.path) == 0 {
				if _, isAlloc := x.Addr.(*ssa.Alloc); !isAlloc {
					if _, isG := x.Addr.(*ssa.Global); !isG {
						vc.safety("nil", fmt.Sprintf("(not (= %s 0))", l.key), "nil dereference in store")
					}
				}
			}
			vc.guardAccess(x.Addr, true, st)
			vc.store(st, l, vc.val(x.Val))
		case *ssa.Field:
			s := x.X.Type()
			vc.setVal(x, fmt.Sprintf("(%s %s)", vc.d.accessor(s, x.Field), vc.val(x.X)))
		case *ssa.Index:
			// index on array value or string
			xv := vc.val(x.X)
			iv := vc.val(x.Index)
			switch t := x.X.Type().Underlying().(type) {
			case *types.Array:
				vc.safety("index", fmt.Sprintf("(and (<= 0 %s) (< %s %d))", iv, iv, t.Len()), "array index in range")
				vc.setVal(x, fmt.Sprintf("(select %s %s)", xv, iv))
			default:
				vc.d.declFun("strat", "(declare-fun strat (Int Int) Int)")
				vc.safety("index", fmt.Sprintf("(and (<= 0 %s) (< %s (strlen %s)))", iv, iv, xv), "string index in range")
				vc.setVal(x, fmt.Sprintf("(strat %s %s)", xv, iv))
				vc.assumeRange(vc.vals[x], x.Type(), nil, "")
			}
		case *ssa.Convert:
			vc.execConvert(x, st)
		case *ssa.ChangeType:
			vc.setVal(x, vc.val(x.X))
			if ci, ok := vc.clos[x.X]; ok {
				vc.clos[x] = ci
			}
		case *ssa.ChangeInterface:
			vc.setVal(x, vc.val(x.X))
		case *ssa.MakeInterface:
			vc.execMakeInterface(x, st)
		case *ssa.TypeAssert:
			vc.execTypeAssert(x, st)
		case *ssa.Extract:
			tup, ok := vc.tuples[x.Tuple]
			if !ok {
				vc.fail("extract from unknown tuple %s", x.Tuple.Name())
			}
			vc.setVal(x, tup[x.Index])
			if ci, ok := vc.clos[x.Tuple]; ok {
				_ = ci
			}
		case *ssa.Slice:
			vc.execSlice(x, st)
		case *ssa.MakeSlice:
			ln, cp := vc.val(x.Len), vc.val(x.Cap)
			vc.safety("make", fmt.Sprintf("(and (<= 0 %s) (<= %s %s))", ln, ln, cp), "make: 0 <= len <= cap")
			r := vc.bumpAlloc(st)
			et := x.Type().Underlying().(*types.Slice).Elem()
			hn, hs := vc.d.elemHeap(et)
			vc.assume(fmt.Sprintf("(= (select %s %s) ((as const (Array Int %s)) %s))", vc.heap(st, hn, hs), r, vc.d.sortOf(et), vc.d.zero(et)))
			vc.setVal(x, fmt.Sprintf("(mk-slice %s 0 %s %s)", r, ln, cp))
		case *ssa.MakeMap:
			r := vc.bumpAlloc(st)
			mt := x.Type().Underlying().(*types.Map)
			md, _, ml, ks, _ := vc.d.mapHeaps(mt)
			vc.assume(fmt.Sprintf("(= (select %s %s) ((as const (Array %s Bool)) false))", vc.heap(st, md, "(Array Int (Array "+ks+" Bool))"), r, ks))
			vc.assume(fmt.Sprintf("(= (select %s %s) 0)", vc.heap(st, ml, "(Array Int Int)"), r))
			vc.setVal(x, r)
		case *ssa.MakeClosure:
			vc.execMakeClosure(x, st)
		case *ssa.Lookup:
			vc.execLookup(x, st)
		case *ssa.MapUpdate:
			vc.execMapUpdate(x, st)
		case *ssa.Range:
			if _, ok := x.X.Type().Underlying().(*types.Map); !ok {
				vc.fail("range over non-map (string) not supported")
			}
			mt := x.X.Type().Underlying().(*types.Map)
			mi := &mapIter{m: vc.val(x.X), mt: mt}
			mi.visited = fmt.Sprintf("((as const (Array %s Bool)) false)", vc.d.sortOf(mt.Key()))
			mi.count = "0"
			vc.mapIterState[x] = mi
			vc.vals[x] = "0"
		case *ssa.Next:
			vc.execNext(x, st)
		case *ssa.Call:
			vc.execCall(x, &x.Call, st, x)
		case *ssa.Defer:
			vc.defers = append(vc.defers, x)
			vc.deferReach[x] = reach
			// arguments are evaluated now: remember their terms
			for _, a := range x.Call.Args {
				if _, ok := vc.locs[a]; !ok {
					_ = vc.valOrEmpty(a)
				}
			}
		case *ssa.RunDefers:
			for i := len(vc.defers) - 1; i >= 0; i-- {
				d := vc.defers[i]
				if !d.Block().Dominates(b) {
					if !blockReaches(d.Block(), b) {
						continue // registered on a path that does not lead to this return
					}
					// conditional defer (registered in a loop or on one branch): no-op callees are skipped; an interface
					// method whose contract has no precondition and whose effects are only scalar ghost records is
					// over-approximated by forgetting those records (it may have been registered any number of times)
					if vc.isNoop(&d.Call) {
						continue
					}
					inLoop := false
					for _, l := range vc.loops {
						if l.blocks[d.Block()] {
							inLoop = true
						}
					}
					if !inLoop {
						// registered on one branch only: the call runs exactly when that branch was taken
						cond := vc.deferReach[d]
						st2 := st.clone()
						saved := vc.reach[b]
						vc.reach[b] = andTerms([]string{saved, cond})
						vc.execCall(nil, &d.Call, st2, nil)
						vc.reach[b] = saved
						m := vc.mergeStates([]inEdge{{cond: cond, st: st2}, {cond: "true", st: st}})
						st.heaps, st.alloc = m.heaps, m.alloc
						continue
					}
					if !vc.havocDeferred(&d.Call, st) {
						vc.fail("conditionally executed defer of a call with effects")
					}
					continue
				}
				vc.execCall(nil, &d.Call, st, nil)
			}
		case *ssa.Go:
			vc.fail("go statement")
		case *ssa.Select:
			vc.execSelect(x, st)
		case *ssa.Send:
			// single-goroutine channel abstraction: the message is not tracked (receivers get arbitrary values
			// that satisfy the channel's invariant, which every send is obliged to establish)
			vc.chanInvSend(x.Chan, x.X, st)
			vc.blockingPoint(st)
		case *ssa.MakeChan:
			c := vc.fresh("chan", vc.d.sortOf(x.Type()))
			vc.assume(fmt.Sprintf("(not (= %s %s))", c, vc.d.zero(x.Type())))
			vc.d.declFun("chancap", "(declare-fun chancap (Int) Int)")
			vc.safety("makechan", fmt.Sprintf("(>= %s 0)", vc.val(x.Size)), "make(chan) with a negative size panics")
			vc.assume(fmt.Sprintf("(= (chancap %s) %s)", c, vc.val(x.Size)))
			vc.setVal(x, c)
		case *ssa.If:
			c := vc.val(x.Cond)
			vc.edgeCond[[2]*ssa.BasicBlock{b, b.Succs[0]}] = c
			vc.edgeCond[[2]*ssa.BasicBlock{b, b.Succs[1]}] = "(not " + c + ")"
			if b.Succs[0] == b.Succs[1] {
				vc.edgeCond[[2]*ssa.BasicBlock{b, b.Succs[0]}] = "true"
			}
			vc.exitState[b] = st
			for i, s := range b.Succs {
				cc := c
				if i == 1 {
					cc = "(not " + c + ")"
				}
				if s.Dominates(b) {
					vc.backEdge(b, s, st, cc)
				} else {
					vc.loopExitEdge(b, s, st, cc)
				}
			}
		case *ssa.Jump:
			vc.edgeCond[[2]*ssa.BasicBlock{b, b.Succs[0]}] = "true"
			vc.exitState[b] = st
			if b.Succs[0].Dominates(b) {
				vc.backEdge(b, b.Succs[0], st, "true")
			} else {
				vc.loopExitEdge(b, b.Succs[0], st, "true")
			}
		case *ssa.Return:
			vc.execReturn(x, st)
		case *ssa.Panic:
			vc.execPanic(x, st)
		default:
			vc.fail("unsupported instruction %T: %s", in, in)
		}
	}
}

// loopExitEdge applies the "exithint" hints of every loop that the edge b -> s leaves.
func (vc *VC) loopExitEdge(b, s *ssa.BasicBlock, st *State, cond string) {
	if vc.discovery {
		return
	}
	for _, lp := range vc.loops {
		if !lp.blocks[b] || lp.blocks[s] {
			continue
		}
		ls := vc.spec.Loops[lp.ordinal]
		if ls == nil || len(ls.ExitHints) == 0 {
			continue
		}
		reach := vc.define("exitedge", "Bool", andTerms([]string{vc.reach[b], cond}))
		env := &Env{vc: vc, cur: st, old: vc.entry, vars: map[string]SVal{}, loop: lp, atHeader: true, block: b, iterOld: lp.hdrState}
		for _, h := range ls.ExitHints {
			vc.tryHint(env, h, reach)
		}
	}
}

func fieldName(x *ssa.FieldAddr) string {
	s, _ := isStruct(derefType(x.X.Type()))
	return s.Field(x.Field).Name()
}

func (vc *VC) valOrEmpty(v ssa.Value) (s string) {
	defer func() {
		if r := recover(); r != nil {
			s = ""
		}
	}()
	return vc.val(v)
}

func (vc *VC) execAlloc(x *ssa.Alloc, st *State) {
	T := x.Type().Underlying().(*types.Pointer).Elem()
	r := vc.bumpAlloc(st)
	l := vc.locOfRef(r, T)
	vc.locs[x] = l
	vc.vals[x] = r
	vc.zeroInit(st, r, T)
}

// zeroInit assumes that the freshly allocated storage holds zero values.
func (vc *VC) zeroInit(st *State, r string, T types.Type) {
	if s, ok := isStruct(T); ok {
		for i := 0; i < s.NumFields(); i++ {
			ft := s.Field(i).Type()
			if _, ok := isStruct(ft); ok {
				vc.zeroInit(st, vc.embTerm(T, i, r), ft)
			} else if a, ok := ft.Underlying().(*types.Array); ok {
				hn, hs := vc.d.elemHeap(a.Elem())
				vc.assume(fmt.Sprintf("(= (select %s %s) %s)", vc.heap(st, hn, hs), vc.embTerm(T, i, r), vc.d.zero(ft)))
			} else {
				hn, hs := vc.d.fieldHeap(T, i)
				vc.assume(fmt.Sprintf("(= (select %s %s) %s)", vc.heap(st, hn, hs), r, vc.d.zero(ft)))
			}
		}
		return
	}
	if a, ok := T.Underlying().(*types.Array); ok {
		hn, hs := vc.d.elemHeap(a.Elem())
		vc.assume(fmt.Sprintf("(= (select %s %s) %s)", vc.heap(st, hn, hs), r, vc.d.zero(T)))
		return
	}
	hn, hs := vc.d.cellHeap(T)
	vc.assume(fmt.Sprintf("(= (select %s %s) %s)", vc.heap(st, hn, hs), r, vc.d.zero(T)))
}

func (vc *VC) execIndexAddr(x *ssa.IndexAddr, st *State) {
	iv := vc.val(x.Index)
	switch t := x.X.Type().Underlying().(type) {
	case *types.Slice:
		s := vc.val(x.X)
		vc.safety("index", fmt.Sprintf("(and (<= 0 %s) (< %s (s-len %s)))", iv, iv, s), "slice index in range")
		hn, hs := vc.d.elemHeap(t.Elem())
		vc.locs[x] = &Loc{kind: lElem, heap: hn, hsort: hs, key: "(s-arr " + s + ")",
			idx: fmt.Sprintf("(+ (s-off %s) %s)", s, iv), typ: t.Elem(), rootT: t.Elem()}
	case *types.Pointer:
		a := t.Elem().Underlying().(*types.Array)
		base := vc.locOfPointer(x.X)
		vc.safety("index", fmt.Sprintf("(and (<= 0 %s) (< %s %d))", iv, iv, a.Len()), "array index in range")
		if base.kind == lCell && len(base.path) == 0 && strings.HasPrefix(base.heap, "E.") {
			// array object stored in the element heap
			vc.locs[x] = &Loc{kind: lElem, heap: base.heap, hsort: base.hsort, key: base.key, idx: iv, typ: a.Elem(), rootT: a.Elem()}
		} else {
			vc.locs[x] = vc.indexLoc(base, iv)
		}
	default:
		vc.fail("IndexAddr on %s", x.X.Type())
	}
}

func (vc *VC) execUnOp(x *ssa.UnOp, st *State) {
	switch x.Op {
	case token.MUL:
		if g, ok := x.X.(*ssa.Global); ok {
			vc.setVal(x, vc.loadGlobal(g, st))
			vc.assumeRange(vc.vals[x], x.Type(), st, "")
			return
		}
		l := vc.locOfPointer(x.X)
		if (l.kind == lStruct || l.kind == lCell) && len(l.path) == 0 {
			if _, isAlloc := x.X.(*ssa.Alloc); !isAlloc {
				vc.safety("nil", fmt.Sprintf("(not (= %s 0))", l.key), "nil dereference in load")
			}
		}
		vc.guardAccess(x.X, false, st)
		vc.setVal(x, vc.load(st, l))
		vc.assumeRange(vc.vals[x], x.Type(), st, vc.reach[vc.curBlock])
	case token.NOT:
		vc.setVal(x, "(not "+vc.val(x.X)+")")
	case token.SUB:
		if vc.d.sortOf(x.Type()) == "Real" {
			vc.setVal(x, "(- "+vc.val(x.X)+")")
			return
		}
		vc.setVal(x, wrapNear("(- "+vc.val(x.X)+")", x.Type()))
	case token.XOR:
		r, ok := rangeOf(x.Type())
		if !ok {
			vc.fail("^ on non-integer")
		}
		if r.signed {
			vc.setVal(x, fmt.Sprintf("(- (- %s) 1)", vc.val(x.X)))
		} else {
			vc.setVal(x, fmt.Sprintf("(- %s %s)", smtInt(r.hi), vc.val(x.X)))
		}
	case token.ARROW:
		// single-goroutine channel abstraction: a received value is arbitrary (within its type)
		vc.blockingPoint(st)
		et := x.X.Type().Underlying().(*types.Chan).Elem()
		v := vc.fresh("recv", vc.d.sortOf(et))
		vc.assumeRange(v, et, st, "")
		vc.chanInvRecv(x.X, v, et, st)
		vc.timerFired(x.X, st, "true")
		if x.CommaOk {
			vc.tuples[x] = []string{v, vc.fresh("recvok", "Bool")}
		} else {
			vc.setVal(x, v)
		}
	default:
		vc.fail("unop %s", x.Op)
	}
}

func (vc *VC) loadGlobal(g *ssa.Global, st *State) string {
	T := g.Type().Underlying().(*types.Pointer).Elem()
	name := "G." + sanitize(g.Pkg.Pkg.Path()+"."+g.Name())
	srt := vc.d.sortOf(T)
	if _, ok := vc.w.immGlobal[g]; !ok {
		if _, done := globalsClassified[g.Pkg]; !done {
			globalsClassified[g.Pkg] = true
			vc.w.classifyGlobals(g.Pkg)
		}
	}
	if kind, ok := vc.w.immGlobal[g]; ok {
		// immutable after init: a constant symbol
		cn := "g." + sanitize(g.Pkg.Pkg.Path()+"."+g.Name())
		if _, seen := vc.d.funs[cn]; !seen {
			vc.d.declFun(cn, fmt.Sprintf("(declare-const %s %s)", cn, srt))
			// a value held by a package-level variable since initialisation is well-typed and was allocated before
			// this activation started
			if f := vc.d.rangeAssume(cn, T, "alloc!0", 0); f != "" {
				vc.d.axioms = append(vc.d.axioms, "(assert "+f+")")
			}
			if kind == "err" || kind == "nonnil" {
				vc.d.axioms = append(vc.d.axioms, fmt.Sprintf("(assert (> %s 0))", cn))
			}
			if kind == "structconst" {
				var fs []string
				stT := T.Underlying().(*types.Struct)
				for i, c := range vc.w.globalStruct[g] {
					if c == nil {
						fs = append(fs, vc.d.zero(stT.Field(i).Type()))
					} else {
						fs = append(fs, vc.constTerm(c))
					}
				}
				vc.d.axioms = append(vc.d.axioms, fmt.Sprintf("(assert (= %s %s))", cn, vc.d.mkStruct(T, fs)))
			}
			if strings.HasPrefix(kind, "slice:") {
				n := strings.TrimPrefix(kind, "slice:")
				vc.d.axioms = append(vc.d.axioms, fmt.Sprintf("(assert (and (= (s-len %s) %s) (= (s-cap %s) %s) (= (s-off %s) 0) (> (s-arr %s) 0)))", cn, n, cn, n, cn, cn))
			}
			if kind == "err" {
				for o := range vc.d.funs {
					if strings.HasPrefix(o, "g.") && o != cn && vc.errGlobals()[o] {
						vc.d.axioms = append(vc.d.axioms, fmt.Sprintf("(assert (not (= %s %s)))", cn, o))
					}
				}
				vc.errGlobals()[cn] = true
			}
		}
		return cn
	}
	return vc.heap(st, name, srt)
}

var globalsClassified = map[*ssa.Package]bool{}
var errGlobalSets = map[*Decls]map[string]bool{}

func (vc *VC) errGlobals() map[string]bool {
	m := errGlobalSets[vc.d]
	if m == nil {
		m = map[string]bool{}
		errGlobalSets[vc.d] = m
	}
	return m
}

func (vc *VC) execBinOp(x *ssa.BinOp, st *State) {
	a, b := vc.val(x.X), vc.val(x.Y)
	xt := x.X.Type()
	isInt := false
	if bt, ok := xt.Underlying().(*types.Basic); ok && bt.Info()&types.IsInteger != 0 {
		isInt = true
	}
	isStr := false
	if bt, ok := xt.Underlying().(*types.Basic); ok && bt.Info()&types.IsString != 0 {
		isStr = true
	}
	isReal := vc.d.sortOf(xt) == "Real"
	switch x.Op {
	case token.ADD:
		if isStr {
			vc.d.declFun("strcat", "(declare-fun strcat (Int Int) Int)")
			vc.setVal(x, fmt.Sprintf("(strcat %s %s)", a, b))
			vc.assume(fmt.Sprintf("(= (strlen %s) (+ (strlen %s) (strlen %s)))", vc.vals[x], a, b))
			vc.assume(fmt.Sprintf("(>= %s 0)", vc.vals[x]))
			return
		}
		if isReal {
			vc.setVal(x, fmt.Sprintf("(+ %s %s)", a, b))
			return
		}
		vc.setVal(x, wrapNear(fmt.Sprintf("(+ %s %s)", a, b), x.Type()))
	case token.SUB:
		if isReal {
			vc.setVal(x, fmt.Sprintf("(- %s %s)", a, b))
			return
		}
		vc.setVal(x, wrapNear(fmt.Sprintf("(- %s %s)", a, b), x.Type()))
	case token.MUL:
		if isReal {
			vc.setVal(x, fmt.Sprintf("(* %s %s)", a, b))
			return
		}
		vc.setVal(x, wrapTerm(fmt.Sprintf("(* %s %s)", a, b), x.Type()))
	case token.QUO, token.REM:
		if isReal {
			vc.setVal(x, fmt.Sprintf("(/ %s %s)", a, b))
			return
		}
		vc.safety("div", fmt.Sprintf("(not (= %s 0))", b), "division by zero")
		r, _ := rangeOf(x.Type())
		if !r.signed {
			if x.Op == token.QUO {
				vc.setVal(x, fmt.Sprintf("(div %s %s)", a, b))
			} else {
				vc.setVal(x, fmt.Sprintf("(mod %s %s)", a, b))
			}
		} else {
			if x.Op == token.QUO {
				vc.setVal(x, wrapNear(tdiv(a, b), x.Type()))
			} else {
				vc.setVal(x, trem(a, b))
			}
		}
	case token.SHL, token.SHR:
		c, ok := x.Y.(*ssa.Const)
		var p string
		if ok {
			s, _ := constIntTerm(c)
			var n int
			fmt.Sscanf(s, "%d", &n)
			r, _ := rangeOf(x.Type())
			if n >= r.bits {
				if x.Op == token.SHL {
					vc.setVal(x, "0")
				} else {
					vc.setVal(x, fmt.Sprintf("(ite (>= %s 0) 0 (- 1))", a))
				}
				return
			}
			p = pow2(n)
		} else {
			vc.declPow2()
			vc.safety("shift", fmt.Sprintf("(>= %s 0)", b), "negative shift amount")
			p = "(pow2 " + b + ")"
		}
		if x.Op == token.SHL {
			vc.setVal(x, wrapTerm(fmt.Sprintf("(* %s %s)", a, p), x.Type()))
		} else {
			vc.setVal(x, fmt.Sprintf("(div %s %s)", a, p))
		}
	case token.AND:
		if vc.d.sortOf(xt) == "Bool" {
			vc.setVal(x, fmt.Sprintf("(and %s %s)", a, b))
			return
		}
		// x & (2^k-1)
		for _, pair := range [][2]ssa.Value{{x.X, x.Y}, {x.Y, x.X}} {
			if c, ok := pair[1].(*ssa.Const); ok {
				s, _ := constIntTerm(c)
				var n uint64
				if _, err := fmt.Sscanf(s, "%d", &n); err == nil && n&(n+1) == 0 {
					vc.setVal(x, fmt.Sprintf("(mod %s %d)", vc.val(pair[0]), n+1))
					return
				}
			}
		}
		vc.fail("general bitwise AND")
	case token.OR:
		if vc.d.sortOf(xt) == "Bool" {
			vc.setVal(x, fmt.Sprintf("(or %s %s)", a, b))
			return
		}
		// a | (y << k): addition when a < 2^k
		for _, pair := range [][2]ssa.Value{{x.X, x.Y}, {x.Y, x.X}} {
			k := shiftAmount(pair[1])
			if k >= 0 {
				vc.oblige("orbits", "", vc.reach[vc.curBlock], fmt.Sprintf("(and (<= 0 %s) (< %s %s))", vc.val(pair[0]), vc.val(pair[0]), pow2(k)),
					"operands of | have disjoint bits")
				vc.setVal(x, fmt.Sprintf("(+ %s %s)", a, b))
				return
			}
		}
		vc.fail("general bitwise OR")
	case token.XOR, token.AND_NOT:
		vc.fail("bitwise %s", x.Op)
	case token.EQL, token.NEQ:
		eq := vc.equalTerm(a, b, xt, x.Y.Type())
		if x.Op == token.NEQ {
			eq = "(not " + eq + ")"
		}
		vc.setVal(x, eq)
	case token.LSS, token.LEQ, token.GTR, token.GEQ:
		op := map[token.Token]string{token.LSS: "<", token.LEQ: "<=", token.GTR: ">", token.GEQ: ">="}[x.Op]
		if isStr {
			vc.fail("string ordering")
		}
		_ = isInt
		vc.setVal(x, fmt.Sprintf("(%s %s %s)", op, a, b))
	default:
		vc.fail("binop %s", x.Op)
	}
}

func shiftAmount(v ssa.Value) int {
	// value of the form (y << k) possibly through conversions; returns k or -1
	for {
		switch x := v.(type) {
		case *ssa.BinOp:
			if x.Op == token.SHL {
				if c, ok := x.Y.(*ssa.Const); ok {
					s, _ := constIntTerm(c)
					var n int
					fmt.Sscanf(s, "%d", &n)
					return n
				}
			}
			return -1
		default:
			return -1
		}
	}
}

func (vc *VC) declPow2() {
	if _, ok := vc.d.funs["pow2"]; ok {
		return
	}
	t := pow2(64)
	for i := 63; i >= 0; i-- {
		t = fmt.Sprintf("(ite (<= n %d) %s %s)", i, pow2(i), t)
	}
	vc.d.declFun("pow2", "(define-fun pow2 ((n Int)) Int "+t+")")
}

func (vc *VC) equalTerm(a, b string, ta, tb types.Type) string {
	if _, ok := ta.Underlying().(*types.Slice); ok {
		// only comparison with nil is legal
		if a == "(mk-slice 0 0 0 0)" {
			return fmt.Sprintf("(= (s-arr %s) 0)", b)
		}
		return fmt.Sprintf("(= (s-arr %s) 0)", a)
	}
	return fmt.Sprintf("(= %s %s)", a, b)
}

func (vc *VC) execConvert(x *ssa.Convert, st *State) {
	from, to := x.X.Type(), x.Type()
	v := vc.val(x.X)
	fr, fok := rangeOf(from)
	tr, tok := rangeOf(to)
	switch {
	case fok && tok:
		if fr.lo.Cmp(tr.lo) >= 0 && fr.hi.Cmp(tr.hi) <= 0 {
			vc.setVal(x, v)
		} else {
			vc.setVal(x, wrapTerm(v, to))
		}
	case tok && !fok:
		// untyped const or float -> int
		if vc.d.sortOf(from) == "Real" {
			vc.fail("float to int conversion")
		}
		vc.setVal(x, wrapTerm(v, to))
	case isStringType(to) && isByteSlice(from):
		vc.d.declFun("str.of.bytes", "(declare-fun str.of.bytes ((Array Int Int) Int Int) Int)")
		hn, hs := vc.d.elemHeap(from.Underlying().(*types.Slice).Elem())
		t := fmt.Sprintf("(str.of.bytes (select %s (s-arr %s)) (s-off %s) (s-len %s))", vc.heap(st, hn, hs), v, v, v)
		vc.setVal(x, t)
		vc.assume(fmt.Sprintf("(and (>= %s 0) (= (strlen %s) (s-len %s)))", vc.vals[x], vc.vals[x], v))
		vc.strRoundTrip()
	case isByteSlice(to) && isStringType(from):
		vc.d.declFun("bytes.of.str", "(declare-fun bytes.of.str (Int) (Array Int Int))")
		r := vc.bumpAlloc(st)
		hn, hs := vc.d.elemHeap(to.Underlying().(*types.Slice).Elem())
		vc.assume(fmt.Sprintf("(= (select %s %s) (bytes.of.str %s))", vc.heap(st, hn, hs), r, v))
		vc.setVal(x, fmt.Sprintf("(mk-slice %s 0 (strlen %s) (strlen %s))", r, v, v))
	case vc.d.sortOf(to) == "Real" && fok:
		vc.setVal(x, "(to_real "+v+")")
	case vc.d.sortOf(to) == vc.d.sortOf(from):
		vc.setVal(x, v)
	default:
		vc.fail("conversion %s -> %s", from, to)
	}
}

func isStringType(t types.Type) bool {
	b, ok := t.Underlying().(*types.Basic)
	return ok && b.Info()&types.IsString != 0
}

func isByteSlice(t types.Type) bool {
	s, ok := t.Underlying().(*types.Slice)
	if !ok {
		return false
	}
	b, ok := s.Elem().Underlying().(*types.Basic)
	return ok && b.Kind() == types.Uint8
}

// ---------- interfaces ----------

func (vc *VC) boxName(t types.Type) string {
	return "box." + shortTypeName(t)
}

func (vc *VC) execMakeInterface(x *ssa.MakeInterface, st *State) {
	ct := x.X.Type()
	v := vc.val(x.X)
	srt := vc.d.sortOf(ct)
	bn := vc.boxName(ct)
	vc.d.declFun(bn, fmt.Sprintf("(declare-fun %s (%s) Int)", bn, srt))
	vc.d.declFun("un"+bn, fmt.Sprintf("(declare-fun un%s (Int) %s)", bn, srt))
	vc.setVal(x, fmt.Sprintf("(%s %s)", bn, v))
	iv := vc.vals[x]
	vc.assume(fmt.Sprintf("(and (> %s 0) (= (typeof %s) %d) (= (un%s %s) %s))", iv, iv, vc.d.typeTag(ct), bn, iv, v))
}

func (vc *VC) execTypeAssert(x *ssa.TypeAssert, st *State) {
	iv := vc.val(x.X)
	if _, isIface := x.AssertedType.Underlying().(*types.Interface); isIface {
		// interface-to-interface: succeeds iff the dynamic type implements it; model: non-nil and unknown
		var ok string
		if types.AssignableTo(x.X.Type(), x.AssertedType) {
			// static upcast: succeeds exactly for non-nil interface values
			ok = vc.define("implements", "Bool", fmt.Sprintf("(> %s 0)", iv))
		} else {
			ok = vc.fresh("implements", "Bool")
			vc.assume(fmt.Sprintf("(=> %s (> %s 0))", ok, iv))
		}
		if x.CommaOk {
			vc.tuples[x] = []string{fmt.Sprintf("(ite %s %s 0)", ok, iv), ok}
		} else {
			vc.safety("assert", ok, "interface type assertion succeeds")
			vc.setVal(x, iv)
		}
		return
	}
	ct := x.AssertedType
	srt := vc.d.sortOf(ct)
	bn := vc.boxName(ct)
	vc.d.declFun(bn, fmt.Sprintf("(declare-fun %s (%s) Int)", bn, srt))
	vc.d.declFun("un"+bn, fmt.Sprintf("(declare-fun un%s (Int) %s)", bn, srt))
	okT := fmt.Sprintf("(and (> %s 0) (= (typeof %s) %d))", iv, iv, vc.d.typeTag(ct))
	un := fmt.Sprintf("(un%s %s)", bn, iv)
	if x.CommaOk {
		okN := vc.define("taok", "Bool", okT)
		val := vc.define("taval", srt, fmt.Sprintf("(ite %s %s %s)", okN, un, vc.d.zero(ct)))
		vc.assumeRange(val, ct, st, okN)
		// boxing is injective: box(unbox(i)) = i for values of this dynamic type
		vc.assumeIf(okN, fmt.Sprintf("(= (%s %s) %s)", bn, un, iv))
		vc.tuples[x] = []string{val, okN}
		return
	}
	vc.safety("assert", okT, "type assertion to "+ct.String()+" succeeds")
	vc.setVal(x, un)
	vc.assumeRange(vc.vals[x], ct, st, vc.reach[vc.curBlock])
	vc.assumeIf(vc.reach[vc.curBlock], fmt.Sprintf("(= (%s %s) %s)", bn, un, iv))
}

// ---------- slices ----------

func (vc *VC) execSlice(x *ssa.Slice, st *State) {
	var lo, hi, mx string
	if x.Low != nil {
		lo = vc.val(x.Low)
	} else {
		lo = "0"
	}
	switch t := x.X.Type().Underlying().(type) {
	case *types.Slice:
		s := vc.val(x.X)
		if x.High != nil {
			hi = vc.val(x.High)
		} else {
			hi = "(s-len " + s + ")"
		}
		mx = "(s-cap " + s + ")"
		if x.Max != nil {
			mx = vc.val(x.Max)
			vc.safety("slice", fmt.Sprintf("(<= %s (s-cap %s))", mx, s), "slice max within capacity")
		}
		vc.safety("slice", fmt.Sprintf("(and (<= 0 %s) (<= %s %s) (<= %s %s))", lo, lo, hi, hi, mx), "slice bounds in range")
		vc.setVal(x, fmt.Sprintf("(mk-slice (s-arr %s) (+ (s-off %s) %s) (- %s %s) (- %s %s))", s, s, lo, hi, lo, mx, lo))
	case *types.Pointer:
		a := t.Elem().Underlying().(*types.Array)
		n := fmt.Sprint(a.Len())
		if x.High != nil {
			hi = vc.val(x.High)
		} else {
			hi = n
		}
		vc.safety("slice", fmt.Sprintf("(and (<= 0 %s) (<= %s %s) (<= %s %s))", lo, lo, hi, hi, n), "slice bounds in range")
		base := vc.locOfPointer(x.X)
		if base.kind == lCell && len(base.path) == 0 && strings.HasPrefix(base.heap, "E.") {
			vc.setVal(x, fmt.Sprintf("(mk-slice %s %s (- %s %s) (- %s %s))", base.key, lo, hi, lo, n, lo))
			return
		}
		// array inside another object: fresh backing identity kept in sync with the location
		r := vc.bumpAlloc(st)
		hn, hs := vc.d.elemHeap(a.Elem())
		vc.setHeap(st, hn, hs, fmt.Sprintf("(store %s %s %s)", vc.heap(st, hn, hs), r, vc.load(st, base)))
		vc.sliceBack[r] = base
		vc.setVal(x, fmt.Sprintf("(mk-slice %s %s (- %s %s) (- %s %s))", r, lo, hi, lo, n, lo))
	case *types.Basic:
		// string slicing
		s := vc.val(x.X)
		if x.High != nil {
			hi = vc.val(x.High)
		} else {
			hi = "(strlen " + s + ")"
		}
		vc.d.declFun("substr", "(declare-fun substr (Int Int Int) Int)")
		vc.safety("slice", fmt.Sprintf("(and (<= 0 %s) (<= %s %s) (<= %s (strlen %s)))", lo, lo, hi, hi, s), "string slice bounds in range")
		vc.setVal(x, fmt.Sprintf("(substr %s %s %s)", s, lo, hi))
		vc.assume(fmt.Sprintf("(and (>= %s 0) (= (strlen %s) (- %s %s)))", vc.vals[x], vc.vals[x], hi, lo))
	default:
		vc.fail("slice of %s", x.X.Type())
	}
}

// ---------- maps ----------

func (vc *VC) mapTerms(st *State, mt *types.Map) (md, mv, ml, ks, vs string, names [3]string, sorts [3]string) {
	dn, vn, ln, ks, vs := vc.d.mapHeaps(mt)
	names = [3]string{dn, vn, ln}
	sorts = [3]string{"(Array Int (Array " + ks + " Bool))", "(Array Int (Array " + ks + " " + vs + "))", "(Array Int Int)"}
	md = vc.heap(st, dn, sorts[0])
	mv = vc.heap(st, vn, sorts[1])
	ml = vc.heap(st, ln, sorts[2])
	return
}

func (vc *VC) execLookup(x *ssa.Lookup, st *State) {
	mt, ok := x.X.Type().Underlying().(*types.Map)
	if !ok {
		// string index
		vc.d.declFun("strat", "(declare-fun strat (Int Int) Int)")
		s, i := vc.val(x.X), vc.val(x.Index)
		vc.safety("index", fmt.Sprintf("(and (<= 0 %s) (< %s (strlen %s)))", i, i, s), "string index in range")
		vc.setVal(x, fmt.Sprintf("(strat %s %s)", s, i))
		vc.assumeRange(vc.vals[x], x.Type(), nil, "")
		return
	}
	m, k := vc.val(x.X), vc.val(x.Index)
	md, mv, _, _, _, _, _ := vc.mapTerms(st, mt)
	has := vc.define("has", "Bool", fmt.Sprintf("(select (select %s %s) %s)", md, m, k))
	v := vc.define("mval", vc.d.sortOf(mt.Elem()), fmt.Sprintf("(ite %s (select (select %s %s) %s) %s)", has, mv, m, k, vc.d.zero(mt.Elem())))
	vc.assumeRange(v, mt.Elem(), st, vc.reach[vc.curBlock])
	if x.CommaOk {
		vc.tuples[x] = []string{v, has}
	} else {
		vc.vals[x] = v
	}
}

func (vc *VC) mapStore(st *State, mt *types.Map, m, k, v string) {
	md, mv, ml, _, _, names, sorts := vc.mapTerms(st, mt)
	vc.noteWrite(st, names[0], m)
	had := vc.define("had", "Bool", fmt.Sprintf("(select (select %s %s) %s)", md, m, k))
	vc.setHeap(st, names[0], sorts[0], fmt.Sprintf("(store %s %s (store (select %s %s) %s true))", md, m, md, m, k))
	vc.setHeap(st, names[1], sorts[1], fmt.Sprintf("(store %s %s (store (select %s %s) %s %s))", mv, m, mv, m, k, v))
	vc.setHeap(st, names[2], sorts[2], fmt.Sprintf("(store %s %s (+ (select %s %s) (ite %s 0 1)))", ml, m, ml, m, had))
}

func (vc *VC) mapDelete(st *State, mt *types.Map, m, k string) {
	md, _, ml, _, _, names, sorts := vc.mapTerms(st, mt)
	vc.noteWrite(st, names[0], m)
	had := vc.define("had", "Bool", fmt.Sprintf("(and (not (= %s 0)) (select (select %s %s) %s))", m, md, m, k))
	vc.setHeap(st, names[0], sorts[0], fmt.Sprintf("(ite (= %s 0) %s (store %s %s (store (select %s %s) %s false)))", m, md, md, m, md, m, k))
	vc.setHeap(st, names[2], sorts[2], fmt.Sprintf("(ite (= %s 0) %s (store %s %s (- (select %s %s) (ite %s 1 0))))", m, ml, ml, m, ml, m, had))
	// len >= 0 is an invariant of real maps
}

func (vc *VC) execMapUpdate(x *ssa.MapUpdate, st *State) {
	mt := x.Map.Type().Underlying().(*types.Map)
	m := vc.val(x.Map)
	vc.safety("nilmap", fmt.Sprintf("(not (= %s 0))", m), "assignment to entry in nil map")
	vc.mapStore(st, mt, m, vc.val(x.Key), vc.val(x.Value))
}

func (vc *VC) execNext(x *ssa.Next, st *State) {
	if x.IsString {
		vc.fail("range over string")
	}
	r := x.Iter.(*ssa.Range)
	mi := vc.mapIterState[r]
	if mi == nil {
		vc.fail("next on unknown iterator")
	}
	md, mv, ml, ks, _, _, _ := vc.mapTerms(st, mi.mt)
	ok := vc.fresh("next.ok", "Bool")
	k := vc.fresh("next.k", ks)
	kt := mi.mt.Key()
	vt := mi.mt.Elem()
	vc.assumeRange(k, kt, st, ok)
	v := vc.define("next.v", vc.d.sortOf(vt), fmt.Sprintf("(select (select %s %s) %s)", mv, mi.m, k))
	vc.assumeRange(v, vt, st, ok)
	vc.assume(fmt.Sprintf("(=> %s (and (select (select %s %s) %s) (not (select %s %s))))", ok, md, mi.m, k, mi.visited, k))
	ins, del := vc.mapWritesInLoop(x.Block(), r)
	if !ins {
		// termination of the range: every key (still) present has been produced. Not assumed when the loop may insert
		// into the ranged map (Go leaves it open whether such entries are produced).
		vc.assume(fmt.Sprintf("(=> (not %s) (forall ((k!n %s)) (! (=> (select (select %s %s) k!n) (select %s k!n)) :pattern ((select (select %s %s) k!n)))))", ok, ks, md, mi.m, mi.visited, md, mi.m))
	}
	if !ins && !del {
		// cardinality facts: valid only while the ranged map is not modified by the loop
		vc.assume(fmt.Sprintf("(=> %s (< %s (select %s %s)))", ok, mi.count, ml, mi.m))
		vc.assume(fmt.Sprintf("(=> (not %s) (= %s (select %s %s)))", ok, mi.count, ml, mi.m))
	} else if !ins {
		// deletions only: a map without keys has length 0
		w := vc.fresh("next.w", ks)
		vc.assumeRange(w, kt, st, "")
		vc.assume(fmt.Sprintf("(=> (not %s) (or (select (select %s %s) %s) (= (select %s %s) 0)))", ok, md, mi.m, w, ml, mi.m))
		vc.notes = append(vc.notes, "range over a map that the loop deletes from: no cardinality facts assumed")
	} else {
		vc.notes = append(vc.notes, "range over a map that the loop may insert into: neither exhaustiveness nor cardinality assumed")
	}
	vc.tuples[x] = []string{ok, k, v}
	// advance
	nv := vc.define("visited", "(Array "+ks+" Bool)", fmt.Sprintf("(ite %s (store %s %s true) %s)", ok, mi.visited, k, mi.visited))
	nc := vc.define("count", "Int", fmt.Sprintf("(ite %s (+ %s 1) %s)", ok, mi.count, mi.count))
	mi.prevVisited, mi.prevCount = mi.visited, mi.count
	mi.visited, mi.count = nv, nc
	mi.lastKey = k
}

// ---------- closures ----------

func (vc *VC) execMakeClosure(x *ssa.MakeClosure, st *State) {
	fn := x.Fn.(*ssa.Function)
	id := vc.fresh("closure", "Int")
	vc.assume(fmt.Sprintf("(> %s 0)", id))
	ci := &closureInfo{fn: fn, bindings: x.Bindings}
	code := "code." + sanitize(funcKey(fn))
	vc.d.declFun(code, fmt.Sprintf("(declare-const %s Int)", code))
	vc.d.declFun("fncode", "(declare-fun fncode (Int) Int)")
	vc.assume(fmt.Sprintf("(= (fncode %s) %s)", id, code))
	for i, bnd := range x.Bindings {
		t := vc.val(bnd)
		ci.terms = append(ci.terms, t)
		fvn := fmt.Sprintf("fv.%s.%d", sanitize(funcKey(fn)), i)
		vc.d.declFun(fvn, fmt.Sprintf("(declare-fun %s (Int) %s)", fvn, vc.d.sortOf(bnd.Type())))
		vc.assume(fmt.Sprintf("(= (%s %s) %s)", fvn, id, t))
	}
	vc.vals[x] = id
	vc.clos[x] = ci
	if sp := vc.w.specFor(fn); sp != nil && len(sp.Captures) > 0 {
		binds := map[string]SVal{}
		for i, fv := range fn.FreeVars {
			binds[fv.Name()] = SVal{t: ci.terms[i], typ: fv.Type(), sort: "Int", cellOf: derefType(fv.Type())}
		}
		env := &Env{vc: vc, cur: st, old: st, vars: binds, noFnNames: true, pkg: vc.specPkg(sp)}
		reach := vc.reach[vc.curBlock]
		for i, c := range sp.Captures {
			vc.checkStableCapture(c.E, fn, x)
			f := env.evalBool(c.E)
			env.flushSide(reach)
			vc.oblige("closure["+fn.Name()+"].captures", labelOr(c.Name, i), reach, f, c.Src)
		}
	}
}

// checkStableCapture: a 'captures requires' clause is proved once, where the closure is created, and assumed whenever
// the closure runs. That is sound only if it cannot change in between: it may mention constants, len/cap and captured
// variables that are assigned exactly once (before the closure is created) and by no closure.
func (vc *VC) checkStableCapture(e Expr, fn *ssa.Function, mc *ssa.MakeClosure) {
	var walk func(e Expr)
	walk = func(e Expr) {
		switch n := e.(type) {
		case *EInt, *EBool, *EStr, nil:
		case *EUnary:
			walk(n.X)
		case *EBinary:
			walk(n.X)
			walk(n.Y)
		case *ECall:
			if sel, ok := n.Fun.(*ESelect); ok && len(n.Args) == 0 {
				// x.M() for a captured interface value x and a method M whose contract is 'pure' (a function of the value)
				if xid, ok := sel.X.(*EIdent); ok {
					for _, fv := range fn.FreeVars {
						if fv.Name() != xid.Name {
							continue
						}
						if named, ok := fv.Type().Underlying().(*types.Pointer).Elem().(*types.Named); ok && named.Obj().Pkg() != nil {
							if sp := vc.w.funcSpecs["iface:"+named.Obj().Pkg().Path()+"."+named.Obj().Name()+"."+sel.Name]; sp != nil && sp.Pure {
								walk(sel.X)
								return
							}
						}
					}
				}
			}
			id, ok := n.Fun.(*EIdent)
			if !ok || (id.Name != "len" && id.Name != "cap") {
				vc.fail("contract: 'captures requires' of %s may only use len/cap, operators, constants and captured variables", fn.Name())
			}
			for _, a := range n.Args {
				walk(a)
			}
		case *EIdent:
			if n.Name == "nil" || n.Name == "true" || n.Name == "false" {
				return
			}
			if _, ok := vc.w.consts[n.Name]; ok {
				return
			}
			for i, fv := range fn.FreeVars {
				if fv.Name() != n.Name {
					continue
				}
				if !writeOnce(mc.Bindings[i], mc) {
					vc.fail("contract: 'captures requires' of %s mentions %s, which is assigned more than once or after the closure is created", fn.Name(), n.Name)
				}
				return
			}
			vc.fail("contract: 'captures requires' of %s mentions %s, which is not a captured variable", fn.Name(), n.Name)
		default:
			vc.fail("contract: 'captures requires' of %s may only use len/cap, operators, constants and captured variables", fn.Name())
		}
	}
	walk(e)
}

// writeOnce: the captured cell is a local of the creating function with a single store, which dominates the
// creation of the closure, and no closure of the creating function stores to it.
func writeOnce(cell ssa.Value, mc *ssa.MakeClosure) bool {
	if fv, ok := cell.(*ssa.FreeVar); ok {
		// the creating function is itself a closure that captured the variable: nobody here stores to it, and it
		// was write-once where that closure was created
		g := fv.Parent()
		if storesTo(g, fv) || g.Parent() == nil {
			return false
		}
		k := -1
		for i, v := range g.FreeVars {
			if v == fv {
				k = i
			}
		}
		found := false
		for _, b := range g.Parent().Blocks {
			for _, in := range b.Instrs {
				if mc2, ok := in.(*ssa.MakeClosure); ok && mc2.Fn == ssa.Value(g) {
					found = true
					if k < 0 || !writeOnce(mc2.Bindings[k], mc2) {
						return false
					}
				}
			}
		}
		return found
	}
	a, ok := cell.(*ssa.Alloc)
	if !ok {
		return false
	}
	// a closure created inside a loop must capture a variable that is allocated in that loop too (a fresh variable per
	// iteration); a variable declared outside -- a Go 1.21-style shared range variable, for instance -- is assigned
	// again by the next iteration while the closure is still alive
	for _, body := range naturalLoops(mc.Parent()) {
		if body[mc.Block()] && !body[a.Block()] {
			return false
		}
	}
	stores := 0
	for _, r := range *a.Referrers() {
		switch y := r.(type) {
		case *ssa.Store:
			if y.Addr != a {
				return false // the address itself is stored somewhere
			}
			stores++
			if y.Block() != mc.Block() && !y.Block().Dominates(mc.Block()) {
				return false
			}
			if y.Block() == mc.Block() {
				before := false
				for _, in := range y.Block().Instrs {
					if in == y {
						before = true
					}
					if in == ssa.Instruction(mc) {
						break
					}
				}
				if !before {
					return false
				}
			}
		case *ssa.MakeClosure:
			f2 := y.Fn.(*ssa.Function)
			for i, b := range y.Bindings {
				if b == ssa.Value(a) && storesTo(f2, f2.FreeVars[i]) {
					return false
				}
			}
		case *ssa.UnOp, *ssa.DebugRef:
		default:
			return false
		}
	}
	return stores == 1
}

func storesTo(f *ssa.Function, fv *ssa.FreeVar) bool {
	for _, r := range *fv.Referrers() {
		switch y := r.(type) {
		case *ssa.Store:
			return true
		case *ssa.MakeClosure:
			f2 := y.Fn.(*ssa.Function)
			for i, b := range y.Bindings {
				if b == ssa.Value(fv) && storesTo(f2, f2.FreeVars[i]) {
					return true
				}
			}
		case *ssa.UnOp, *ssa.DebugRef:
		default:
			return true
		}
	}
	return false
}

// mapWritesInLoop reports whether the loop whose header contains the Next instruction may insert into / delete from
// the map being ranged over.
func (vc *VC) mapWritesInLoop(hdr *ssa.BasicBlock, r *ssa.Range) (ins, del bool) {
	lp := vc.loopOf[hdr]
	if lp == nil {
		for _, l := range vc.loops {
			if l.blocks[hdr] {
				lp = l
			}
		}
	}
	if lp == nil {
		return false, false
	}
	mt, ok := r.X.Type().Underlying().(*types.Map)
	if !ok {
		return false, false
	}
	strip := func(v ssa.Value) ssa.Value {
		for {
			if c, ok := v.(*ssa.ChangeType); ok {
				v = c.X
				continue
			}
			return v
		}
	}
	mayAlias := func(a, b ssa.Value) bool {
		a, b = strip(a), strip(b)
		if a == b {
			return true
		}
		_, ma := a.(*ssa.MakeMap)
		_, mb := b.(*ssa.MakeMap)
		if ma || mb {
			return false // a map made in this function is different from any other map value
		}
		return true
	}
	sameType := func(t types.Type) bool {
		m2, ok := t.Underlying().(*types.Map)
		return ok && types.Identical(m2.Key(), mt.Key()) && types.Identical(m2.Elem(), mt.Elem())
	}
	for b := range lp.blocks {
		for _, in := range b.Instrs {
			switch x := in.(type) {
			case *ssa.MapUpdate:
				if sameType(x.Map.Type()) && mayAlias(x.Map, r.X) {
					ins = true
				}
			case *ssa.Call:
				if bi, ok := x.Call.Value.(*ssa.Builtin); ok {
					if bi.Name() == "delete" && sameType(x.Call.Args[0].Type()) && mayAlias(x.Call.Args[0], r.X) {
						del = true
					}
					continue
				}
				if vc.isNoop(&x.Call) {
					continue
				}
				// a callee with a contract that may modify maps of this type
				var sp *FuncSpec
				if f := x.Call.StaticCallee(); f != nil {
					sp = vc.w.specFor(f)
				}
				if sp == nil || len(sp.Modifies) > 0 {
					if sp != nil {
						// only indexed locations whose base is not a ghost variable can denote entries of a Go map
						txt := ""
						for _, m := range sp.Modifies {
							if ix, ok := m.(*EIndex); ok {
								if id, ok := ix.X.(*EIdent); ok {
									if _, isGhost := vc.w.ghosts[id.Name]; isGhost {
										continue
									}
								}
							}
							txt += exprString(m) + ";"
						}
						if !strings.Contains(txt, "[") {
							continue
						}
					}
					// the callee may modify maps: it can reach the ranged map through a map-typed argument that may
					// alias it, or (when its modifies clause goes through fields) through the heap if the ranged map
					// itself was read from a field
					if sp != nil {
						for _, a := range x.Call.Args {
							if sameType(a.Type()) && mayAlias(a, r.X) {
								ins = true
							}
						}
						if u, ok := strip(r.X).(*ssa.UnOp); ok {
							if _, fromField := u.X.(*ssa.FieldAddr); fromField && strings.Contains(txt0(sp), ".") {
								ins = true
							}
						}
					}
				}
			}
		}
	}
	return
}

func txt0(sp *FuncSpec) string {
	t := ""
	for _, m := range sp.Modifies {
		t += exprString(m) + ";"
	}
	return t
}

// blockReaches: is there a control-flow path from block a to block b?
func blockReaches(a, b *ssa.BasicBlock) bool {
	seen := map[*ssa.BasicBlock]bool{a: true}
	work := []*ssa.BasicBlock{a}
	for len(work) > 0 {
		x := work[len(work)-1]
		work = work[:len(work)-1]
		if x == b {
			return true
		}
		for _, s := range x.Succs {
			if !seen[s] {
				seen[s] = true
				work = append(work, s)
			}
		}
	}
	return false
}

// havocDeferred over-approximates zero or more executions of a deferred interface call whose contract has no
// precondition and modifies only scalar ghost variables.
func (vc *VC) havocDeferred(c *ssa.CallCommon, st *State) bool {
	if !c.IsInvoke() {
		return false
	}
	m := c.Method
	rt := m.Type().(*types.Signature).Recv().Type()
	named, _ := rt.(*types.Named)
	if named == nil {
		if nn, ok := c.Value.Type().(*types.Named); ok {
			named = nn
		}
	}
	if named == nil || named.Obj().Pkg() == nil {
		return false
	}
	key := "iface:" + named.Obj().Pkg().Path() + "." + named.Obj().Name() + "." + m.Name()
	spec := vc.w.funcSpecs[key]
	if spec == nil || len(spec.Requires) > 0 || spec.AliasOf != "" {
		return false
	}
	var ghosts []*GhostDecl
	for _, ml := range spec.Modifies {
		id, ok := ml.(*EIdent)
		if !ok {
			return false
		}
		g := vc.w.ghosts[id.Name]
		if g == nil || g.Key != "" {
			return false
		}
		ghosts = append(ghosts, g)
	}
	env := &Env{vc: vc, cur: st, old: vc.entry, vars: map[string]SVal{}}
	for _, g := range ghosts {
		_, srt, _ := env.ghostSorts(g)
		vc.setHeap(st, "GH."+g.Name, srt, vc.fresh("GH."+g.Name+".dfr", srt))
	}
	vc.noteTrusted("deferred " + named.Obj().Name() + "." + m.Name() + " calls registered in a loop: their recorded effects are forgotten (any number of calls)")
	return true
}

// strRoundTrip: []byte(string(b)) has the bytes of b (stated once, for all byte arrays).
func (vc *VC) strRoundTrip() {
	if _, ok := vc.d.funs["bytes.of.str"]; !ok {
		vc.d.declFun("bytes.of.str", "(declare-fun bytes.of.str (Int) (Array Int Int))")
	}
	if _, ok := vc.d.funs["str.rt!axiom"]; ok {
		return
	}
	vc.d.declFun("str.rt!axiom", "")
	vc.d.axioms = append(vc.d.axioms, "(assert (forall ((c!a (Array Int Int)) (o!a Int) (l!a Int) (i!a Int)) (! (=> (and (<= 0 i!a) (< i!a l!a)) (= (select (bytes.of.str (str.of.bytes c!a o!a l!a)) i!a) (select c!a (+ o!a i!a)))) :pattern ((select (bytes.of.str (str.of.bytes c!a o!a l!a)) i!a)))))")
}

// blockingPoint models what other goroutines may do while this one waits on a channel operation: the locations
// named in the function's 'interference' clause get arbitrary values; everything else is taken to be confined to
// this goroutine (a stated assumption of every claim that covers a function with channel operations).
func (vc *VC) blockingPoint(st *State) {
	vc.noteTrusted("channel operations in " + vc.fn.Name() + " are abstracted: sends are not tracked, received values and the chosen select case are arbitrary; state not named in the function's 'interference' clause is taken to be confined to the executing goroutine")
	if vc.spec == nil || len(vc.spec.Interference) == 0 {
		return
	}
	env := &Env{vc: vc, cur: st, old: vc.entry, vars: map[string]SVal{}, block: vc.curBlock}
	var mls []modLoc
	for _, m := range vc.spec.Interference {
		mls = append(mls, env.evalLocs(m)...)
	}
	env.flushSide(vc.reach[vc.curBlock])
	for _, ml := range mls {
		vc.havoc(st, ml)
	}
}

// execSelect: single-goroutine channel abstraction of a select statement. Any of the cases (or, if the select is
// non-blocking, the default) may be taken; received values are arbitrary within their types; sends are not tracked.
func (vc *VC) execSelect(x *ssa.Select, st *State) {
	vc.blockingPoint(st)
	idx := vc.fresh("select.idx", "Int")
	lo := "0"
	if !x.Blocking {
		lo = "(- 1)"
	}
	vc.assume(fmt.Sprintf("(and (<= %s %s) (< %s %d))", lo, idx, idx, len(x.States)))
	tup := []string{idx, vc.fresh("select.ok", "Bool")}
	for _, s := range x.States {
		if s.Dir == types.RecvOnly {
			et := s.Chan.Type().Underlying().(*types.Chan).Elem()
			v := vc.fresh("select.recv", vc.d.sortOf(et))
			vc.assumeRange(v, et, st, "")
			vc.chanInvRecv(s.Chan, v, et, st)
			tup = append(tup, v)
		} else {
			vc.chanInvSend(s.Chan, s.Send, st)
		}
	}
	vc.tuples[x] = tup
	for i, s := range x.States {
		if s.Dir == types.RecvOnly {
			vc.timerFired(s.Chan, st, fmt.Sprintf("(= %s %d)", idx, i))
		}
	}
}

// timerFired: receiving from the channel C of a *time.Timer means that the timer fired, after which it is no longer
// armed (ghost gTimerArmed of contracts/trusted/time.contracts, if that ghost is declared).
func (vc *VC) timerFired(ch ssa.Value, st *State, cond string) {
	if _, ok := vc.w.ghosts["gTimerArmed"]; !ok {
		return
	}
	u, ok := ch.(*ssa.UnOp)
	if !ok || u.Op != token.MUL {
		return
	}
	fa, ok := u.X.(*ssa.FieldAddr)
	if !ok || fieldName(fa) != "C" {
		return
	}
	pt, ok := fa.X.Type().Underlying().(*types.Pointer)
	if !ok {
		return
	}
	named, ok := pt.Elem().(*types.Named)
	if !ok || named.Obj().Pkg() == nil || named.Obj().Pkg().Path() != "time" || named.Obj().Name() != "Timer" {
		return
	}
	srt := "(Array Int Bool)"
	h := vc.heap(st, "GH.gTimerArmed", srt)
	t := vc.val(fa.X)
	vc.noteWrite(st, "GH.gTimerArmed", t)
	if cond == "true" {
		vc.setHeap(st, "GH.gTimerArmed", srt, fmt.Sprintf("(store %s %s false)", h, t))
	} else {
		vc.setHeap(st, "GH.gTimerArmed", srt, fmt.Sprintf("(ite %s (store %s %s false) %s)", cond, h, t, h))
	}
}

// chanInvOf finds the invariant of the channel held in a struct field: the channel value must be a direct load of
// that field (t = &x.f; c = *t), which is how go/ssa renders x.f <- v and <-x.f.
func (vc *VC) chanInvOf(ch ssa.Value) *InvDef {
	u, ok := ch.(*ssa.UnOp)
	if !ok || u.Op != token.MUL {
		return nil
	}
	// a local channel variable shared with closures: chaninv <outermost function>.<variable>(v)
	vname := ""
	switch y := u.X.(type) {
	case *ssa.FreeVar:
		vname = y.Name()
	case *ssa.Alloc:
		vname = y.Comment
	}
	if vname != "" {
		top := u.Parent()
		for top.Parent() != nil {
			top = top.Parent()
		}
		if top.Pkg == nil {
			return nil
		}
		return vc.w.chanInvs[top.Pkg.Pkg.Path()+"."+top.RelString(top.Pkg.Pkg)+"."+vname]
	}
	fa, ok := u.X.(*ssa.FieldAddr)
	if !ok {
		return nil
	}
	pt, ok := fa.X.Type().Underlying().(*types.Pointer)
	if !ok {
		return nil
	}
	named, ok := pt.Elem().(*types.Named)
	if !ok || named.Obj().Pkg() == nil {
		return nil
	}
	return vc.w.chanInvs[named.Obj().Pkg().Path()+"."+named.Obj().Name()+"."+fieldName(fa)]
}

func (vc *VC) chanInvTerm(ci *InvDef, chv SVal, v string, et types.Type, st *State, ownerOf *SVal) (string, *Env) {
	env := &Env{vc: vc, cur: st, old: vc.entry, vars: map[string]SVal{}, block: vc.curBlock}
	if tp, ok := vc.w.tpkgs[ci.Pkg]; ok && tp.Types != nil {
		env.pkg = tp.Types
	}
	vars := map[string]SVal{ci.Var: {t: v, typ: et, sort: vc.d.sortOf(et)}, "ch": chv}
	if chv.st == nil && ownerOf != nil {
		// "owner": the struct that holds the channel (for a channel kept in a struct field)
		vars["owner"] = *ownerOf
	}
	r := env.withVars(vars, func() SVal { return env.eval(ci.Body) })
	return r.t, env
}

func (vc *VC) chanInvRecv(ch ssa.Value, v string, et types.Type, st *State) {
	if ci := vc.chanInvOf(ch); ci != nil {
		// the invariant may be assumed only if every function of the package that sends on this channel is
		// checked in this claim (each send carries the obligation chan.send.inv)
		var missing []string
		for fn := range ssautil.AllFunctions(vc.w.prog) {
			if fn.Pkg != vc.fn.Pkg {
				continue
			}
			sends := false
			for _, b := range fn.Blocks {
				for _, in := range b.Instrs {
					switch y := in.(type) {
					case *ssa.Send:
						sends = sends || vc.chanInvOf(y.Chan) == ci
					case *ssa.Select:
						for _, s := range y.States {
							sends = sends || (s.Dir == types.SendOnly && vc.chanInvOf(s.Chan) == ci)
						}
					}
				}
			}
			if sends && len(vc.w.claimed) > 0 && !vc.w.claimed[funcKey(fn)] { // (no claim: the dump command)
				missing = append(missing, fn.RelString(fn.Pkg.Pkg))
			}
		}
		if len(missing) > 0 {
			sort.Strings(missing)
			vc.fail("channel invariant of %s assumed at a receive, but these senders are not checked in this claim: %s", ci.Type, strings.Join(missing, ", "))
		}
		vc.checkChanInvFields(ci, et)
		f, env := vc.chanInvTerm(ci, SVal{t: vc.val(ch), typ: ch.Type(), sort: "Int"}, v, et, st, vc.chanOwner(ch))
		env.flushSide(vc.reach[vc.curBlock])
		vc.assume(f)
	}
}

func (vc *VC) chanInvSend(ch, x ssa.Value, st *State) {
	if ci := vc.chanInvOf(ch); ci != nil {
		et := ch.Type().Underlying().(*types.Chan).Elem()
		f, env := vc.chanInvTerm(ci, SVal{t: vc.val(ch), typ: ch.Type(), sort: "Int"}, vc.val(x), et, st, vc.chanOwner(ch))
		reach := vc.reach[vc.curBlock]
		env.flushSide(reach)
		vc.oblige("chan.send.inv", "", reach, f, "value sent on "+ci.Type+" satisfies the channel invariant")
	}
}

// checkChanInvFields: a channel invariant that reads fields of the message (v.f) is established when the message is
// sent and used when it is received; in between the fields must not change. Checked syntactically: every store to
// such a field in the package goes through a pointer to a struct allocated in the same function (the initialisation
// of a fresh message).
func (vc *VC) checkChanInvFields(ci *InvDef, et types.Type) {
	pt, ok := et.Underlying().(*types.Pointer)
	if !ok {
		return
	}
	stT, ok := pt.Elem().Underlying().(*types.Struct)
	if !ok {
		return
	}
	fields := map[string]bool{}
	var walk func(e Expr)
	walk = func(e Expr) {
		switch n := e.(type) {
		case *EUnary:
			walk(n.X)
		case *EBinary:
			walk(n.X)
			walk(n.Y)
		case *ECall:
			walk(n.Fun)
			for _, a := range n.Args {
				walk(a)
			}
		case *ESelect:
			if id, ok := n.X.(*EIdent); ok && id.Name == ci.Var {
				fields[n.Name] = true
			}
			walk(n.X)
		case *EIndex:
			walk(n.X)
			walk(n.I)
		}
	}
	walk(ci.Body)
	if len(fields) == 0 {
		return
	}
	for fn := range ssautil.AllFunctions(vc.w.prog) {
		if fn.Pkg != vc.fn.Pkg {
			continue
		}
		for _, b := range fn.Blocks {
			for _, in := range b.Instrs {
				stI, ok := in.(*ssa.Store)
				if !ok {
					continue
				}
				fa, ok := stI.Addr.(*ssa.FieldAddr)
				if !ok {
					continue
				}
				bp, ok := fa.X.Type().Underlying().(*types.Pointer)
				if !ok || !types.Identical(bp.Elem().Underlying(), stT) || !fields[fieldName(fa)] {
					continue
				}
				if _, fresh := fa.X.(*ssa.Alloc); !fresh {
					vc.fail("channel invariant of %s reads field %s of the message, but %s stores to that field of an existing message", ci.Type, fieldName(fa), fn.Name())
				}
			}
		}
	}
}

// chanOwner: for a channel loaded from a struct field (c = *(&x.f)), the struct pointer x.
func (vc *VC) chanOwner(ch ssa.Value) *SVal {
	u, ok := ch.(*ssa.UnOp)
	if !ok || u.Op != token.MUL {
		return nil
	}
	fa, ok := u.X.(*ssa.FieldAddr)
	if !ok {
		return nil
	}
	return &SVal{t: vc.val(fa.X), typ: fa.X.Type(), sort: "Int"}
}

// ---- lock discipline ('guarded Struct.field by lockfield') ----

// noteGuarded remembers, for the address &x.f of a guarded field, the address of the mutex that guards it. Accesses
// to an object allocated in the same function (not yet shared: constructors) are exempt.
func (vc *VC) noteGuarded(x *ssa.FieldAddr, base *Loc, st *State) {
	if len(vc.w.guards) == 0 {
		return
	}
	if outer, ok := x.X.(*ssa.FieldAddr); ok {
		// a component of a guarded struct-typed field (s.processing.Num) is guarded like the field
		if a, ok := vc.guardOf[outer]; ok {
			vc.guardOf[x] = a
			return
		}
	}
	if base.kind != lStruct {
		return
	}
	// (the root of the access path &a.f.g... is an allocation of this function)
	var root ssa.Value = x.X
	for {
		if fa, ok := root.(*ssa.FieldAddr); ok {
			root = fa.X
			continue
		}
		break
	}
	if _, fresh := root.(*ssa.Alloc); fresh {
		return
	}
	named, ok := base.typ.(*types.Named)
	if !ok || named.Obj().Pkg() == nil {
		return
	}
	g := vc.w.guards[named.Obj().Pkg().Path()+"."+named.Obj().Name()+"."+fieldName(x)]
	if g == nil {
		return
	}
	// the lock may sit in an embedded struct: 'by flushableReader.lock'
	curT, ref := base.typ, base.key
	comps := strings.Split(g.Lock, ".")
	for ci, comp := range comps {
		stT, ok := isStruct(curT)
		if !ok {
			break
		}
		found := false
		for i := 0; i < stT.NumFields(); i++ {
			if stT.Field(i).Name() != comp {
				continue
			}
			found = true
			lt := stT.Field(i).Type()
			if ci < len(comps)-1 {
				ref = vc.embTerm(curT, i, ref)
				curT = lt
				break
			}
			var addr string
			if _, isPtr := lt.Underlying().(*types.Pointer); isPtr {
				hn, hs := vc.d.fieldHeap(curT, i)
				addr = fmt.Sprintf("(select %s %s)", vc.heap(st, hn, hs), ref)
			} else {
				addr = vc.embTerm(curT, i, ref)
			}
			if vc.guardOf == nil {
				vc.guardOf = map[ssa.Value]string{}
			}
			vc.guardOf[x] = addr
			return
		}
		if !found {
			break
		}
	}
	vc.fail("contract: guarded %s.%s by %s: no such lock field", g.Struct, g.Field, g.Lock)
}

func (vc *VC) guardAccess(addr ssa.Value, write bool, st *State) {
	a, ok := vc.guardOf[addr]
	if !ok {
		return
	}
	w := vc.heap(st, "GH.lkW", "(Array Int Bool)")
	r := vc.heap(st, "GH.lkR", "(Array Int Int)")
	fa := addr.(*ssa.FieldAddr)
	if write {
		vc.oblige("lock.guard", "", vc.reach[vc.curBlock], fmt.Sprintf("(select %s %s)", w, a), "write of guarded field "+fieldName(fa)+" with its lock held for writing")
	} else {
		vc.oblige("lock.guard", "", vc.reach[vc.curBlock], fmt.Sprintf("(or (select %s %s) (> (select %s %s) 0))", w, a, r, a), "read of guarded field "+fieldName(fa)+" with its lock held")
	}
}

// naturalLoops: for every back edge t -> h (h dominates t) the set of blocks of its natural loop.
func naturalLoops(fn *ssa.Function) []map[*ssa.BasicBlock]bool {
	var res []map[*ssa.BasicBlock]bool
	for _, t := range fn.Blocks {
		for _, h := range t.Succs {
			if !h.Dominates(t) {
				continue
			}
			body := map[*ssa.BasicBlock]bool{h: true}
			work := []*ssa.BasicBlock{t}
			for len(work) > 0 {
				x := work[len(work)-1]
				work = work[:len(work)-1]
				if body[x] {
					continue
				}
				body[x] = true
				work = append(work, x.Preds...)
			}
			res = append(res, body)
		}
	}
	return res
}
