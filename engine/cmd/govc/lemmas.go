package main

import (
	"fmt"
	"go/types"
)

// lemmaVC builds the proof obligations of one lemma.
func (w *World) lemmaVC(lm *Lemma) (vc *VC, err error) {
	vc = newVC(w, nil, &FuncSpec{Loops: map[int]*LoopSpec{}})
	vc.funcName = "lemma." + lm.Name
	defer func() {
		if r := recover(); r != nil {
			if u, ok := r.(unsupported); ok {
				err = fmt.Errorf("lemma %s: %s", lm.Name, u.msg)
				return
			}
			panic(r)
		}
	}()
	vc.d.declFun("alloc!0", "(declare-const alloc!0 Int)")
	vc.entry = &State{heaps: map[string]string{}, alloc: "alloc!0"}
	st := vc.entry
	var pkg *types.Package
	if tp, ok := w.tpkgs[lm.Pkg]; ok {
		pkg = tp.Types
	}
	env := &Env{vc: vc, cur: st, old: st, vars: map[string]SVal{}, noFnNames: true, pkg: pkg}
	for _, p := range lm.Params {
		srt, typ := env.sortOfTypeString(p.Type)
		if typ != nil {
			if sl, ok := typ.Underlying().(*types.Slice); ok {
				arr := vc.fresh(p.Name+".arr", "(Array Int "+vc.d.sortOf(sl.Elem())+")")
				// a lemma is about abstract sequences: the offset into the backing array is irrelevant
				off := "0"
				ln := vc.fresh(p.Name+".len", "Int")
				vc.assume(fmt.Sprintf("(>= %s 0)", ln))
				if _, ok := rangeOf(sl.Elem()); ok {
					vc.assume(fmt.Sprintf("(forall ((i!r Int)) (! %s :pattern ((select %s i!r))))", vc.d.rangeAssume("(select "+arr+" i!r)", sl.Elem(), "", 0), arr))
				}
				env.vars[p.Name] = SVal{t: fmt.Sprintf("(mk-slice 1 %s %s %s)", off, ln, ln), typ: typ, sort: "Slice", arr: arr}
				continue
			}
		}
		c := vc.fresh(p.Name, srt)
		if typ != nil {
			vc.assumeRange(c, typ, nil, "")
		}
		env.vars[p.Name] = SVal{t: c, typ: typ, sort: srt}
	}
	for _, r := range lm.Requires {
		f := env.evalBool(r)
		env.flushSide("")
		vc.assume(f)
	}
	if lm.Induction != "" {
		nv, ok := env.vars[lm.Induction]
		if !ok {
			return nil, fmt.Errorf("lemma %s: induction variable %s is not a parameter", lm.Name, lm.Induction)
		}
		var args []Expr
		for _, p := range lm.Params {
			if p.Name == lm.Induction {
				args = append(args, &EBinary{"-", &EIdent{p.Name}, &EInt{"1"}})
			} else {
				args = append(args, &EIdent{p.Name})
			}
		}
		inst := env.lemmaInstance(lm, args)
		env.flushSide("")
		vc.assume(fmt.Sprintf("(=> (> %s 0) %s)", nv.t, inst))
	}
	for _, h := range lm.Hints {
		env.applyHint(h, "true")
	}
	for i, en := range lm.Ensures {
		f := env.evalBool(en)
		env.flushSide("")
		vc.oblige("lemma", fmt.Sprint(i), "true", f, exprString(en))
	}
	o := vc.oblige("vacuity.lemma", "", "true", "true", "lemma hypotheses are satisfiable")
	o.expect = "sat"
	return vc, nil
}
