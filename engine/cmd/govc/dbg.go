package main

import (
	"fmt"
	"strings"
)

func cmdKeys(repo, pat, sub string) {
	w, err := loadWorld(repo, []string{pat}, nil)
	if err != nil {
		fmt.Println(err)
		return
	}
	for p := range w.pkgs {
		if strings.Contains(p, sub) {
			w.build(p)
		}
	}
	for k := range w.funcIndex() {
		if strings.Contains(k, sub) {
			fmt.Println(k)
		}
	}
}
