package main

// Mapping of Go types to SMT sorts, datatype declarations, naming of heaps.

import (
	"regexp"
	"fmt"
	"go/types"
	"math/big"
	"sort"
	"strings"
)

// Decls collects global SMT declarations needed by one script family
// (one function under verification or one lemma).
type Decls struct {
	sortOrder []string          // datatype declarations in dependency order
	sortDecl  map[string]string // sort name -> declaration text
	funs      map[string]string // name -> declaration line
	funOrder  []string
	structOf  map[string]*types.Struct
	axioms    []string
	embKinds  map[string]int
	tags      map[string]int
	strConsts map[string]string
}

func newDecls() *Decls {
	d := &Decls{sortDecl: map[string]string{}, funs: map[string]string{}, structOf: map[string]*types.Struct{},
		embKinds: map[string]int{}, tags: map[string]int{}, strConsts: map[string]string{}}
	d.sortDecl["Slice"] = "(declare-datatypes ((Slice 0)) (((mk-slice (s-arr Int) (s-off Int) (s-len Int) (s-cap Int)))))"
	d.sortOrder = append(d.sortOrder, "Slice")
	d.declFun("base", "(declare-fun base (Int) Int)")
	d.declFun("kind", "(declare-fun kind (Int) Int)")
	d.declFun("typeof", "(declare-fun typeof (Int) Int)")
	d.declFun("strlen", "(declare-fun strlen (Int) Int)")
	d.axioms = append(d.axioms, "(assert (= (base 0) 0))")
	return d
}

func (d *Decls) declFun(name, decl string) {
	if _, ok := d.funs[name]; ok {
		return
	}
	d.funs[name] = decl
	d.funOrder = append(d.funOrder, name)
}

func (d *Decls) text() string {
	var sb strings.Builder
	for _, s := range d.sortOrder {
		sb.WriteString(d.sortDecl[s])
		sb.WriteString("\n")
	}
	for _, f := range d.funOrder {
		sb.WriteString(d.funs[f])
		sb.WriteString("\n")
	}
	for _, a := range d.axioms {
		sb.WriteString(a)
		sb.WriteString("\n")
	}
	return sb.String()
}

func sanitize(s string) string {
	var sb strings.Builder
	for _, c := range s {
		switch {
		case c >= 'a' && c <= 'z', c >= 'A' && c <= 'Z', c >= '0' && c <= '9', c == '_', c == '.':
			sb.WriteRune(c)
		case c == '/':
			sb.WriteRune('.')
		case c == '*':
			sb.WriteString("P")
		case c == '[':
			sb.WriteString("L")
		case c == ']':
			sb.WriteString("R")
		case c == ' ', c == '(', c == ')', c == ',':
			sb.WriteString("_")
		case c == '$':
			sb.WriteString("!")
		default:
			sb.WriteString("_")
		}
	}
	return sb.String()
}

func shortTypeName(t types.Type) string {
	s := types.TypeString(t, func(p *types.Package) string {
		path := p.Path()
		if i := strings.LastIndex(path, "/"); i >= 0 {
			// keep two last components to avoid clashes between e.g. kvdb/table and abft/table
			rest := path[:i]
			if j := strings.LastIndex(rest, "/"); j >= 0 {
				return path[j+1:]
			}
			return path
		}
		return path
	})
	return sanitize(canonTypeString(s))
}

// structName returns the canonical name of a struct type (named or anonymous).
func structName(t types.Type) string {
	if n, ok := t.(*types.Named); ok {
		return shortTypeName(n)
	}
	if a, ok := t.(*types.Alias); ok {
		return structName(types.Unalias(a))
	}
	return "anon." + sanitize(fmt.Sprintf("%x", hashString(t.String())))
}

func hashString(s string) uint32 {
	var h uint32 = 2166136261
	for i := 0; i < len(s); i++ {
		h ^= uint32(s[i])
		h *= 16777619
	}
	return h
}

func isStruct(t types.Type) (*types.Struct, bool) {
	s, ok := t.Underlying().(*types.Struct)
	return s, ok
}

// sortOf returns the SMT sort for a Go type, declaring datatypes as needed.
func (d *Decls) sortOf(t types.Type) string {
	switch u := t.Underlying().(type) {
	case *types.Basic:
		switch {
		case u.Info()&types.IsBoolean != 0:
			return "Bool"
		case u.Info()&types.IsInteger != 0:
			return "Int"
		case u.Info()&types.IsString != 0:
			return "Int"
		case u.Info()&types.IsFloat != 0:
			return "Real"
		case u.Kind() == types.UnsafePointer:
			return "Int"
		case u.Kind() == types.UntypedNil:
			return "Int"
		}
		return "Int"
	case *types.Pointer, *types.Map, *types.Chan, *types.Signature, *types.Interface:
		return "Int"
	case *types.Slice:
		return "Slice"
	case *types.Array:
		return "(Array Int " + d.sortOf(u.Elem()) + ")"
	case *types.Struct:
		name := "S." + structName(t)
		if _, ok := d.sortDecl[name]; ok {
			return name
		}
		d.sortDecl[name] = "" // placeholder against recursion
		var fs []string
		for i := 0; i < u.NumFields(); i++ {
			fs = append(fs, fmt.Sprintf("(%s (%s))", d.accessor(t, i), d.sortOf(u.Field(i).Type())))
			// note: accessor sort text fixed below
		}
		fs = fs[:0]
		for i := 0; i < u.NumFields(); i++ {
			fs = append(fs, fmt.Sprintf("(%s %s)", d.accessor(t, i), d.sortOf(u.Field(i).Type())))
		}
		d.sortDecl[name] = fmt.Sprintf("(declare-datatypes ((%s 0)) (((mk.%s %s))))", name, name, strings.Join(fs, " "))
		if u.NumFields() == 0 {
			d.sortDecl[name] = fmt.Sprintf("(declare-datatypes ((%s 0)) (((mk.%s))))", name, name)
		}
		d.sortOrder = append(d.sortOrder, name)
		d.structOf[name] = u
		return name
	case *types.Tuple:
		return "Int"
	case *types.TypeParam:
		return "Int"
	}
	panic("sortOf: unsupported type " + t.String())
}

func (d *Decls) accessor(structT types.Type, i int) string {
	s, _ := isStruct(structT)
	return "f." + structName(structT) + "." + s.Field(i).Name()
}

func (d *Decls) mkStruct(structT types.Type, fields []string) string {
	name := d.sortOf(structT)
	if len(fields) == 0 {
		return "mk." + name
	}
	return "(mk." + name + " " + strings.Join(fields, " ") + ")"
}

// zero value term of a type
func (d *Decls) zero(t types.Type) string {
	switch u := t.Underlying().(type) {
	case *types.Basic:
		if u.Info()&types.IsBoolean != 0 {
			return "false"
		}
		if u.Info()&types.IsFloat != 0 {
			return "0.0"
		}
		if u.Info()&types.IsString != 0 {
			return d.strConst("")
		}
		return "0"
	case *types.Slice:
		return "(mk-slice 0 0 0 0)"
	case *types.Array:
		return fmt.Sprintf("((as const %s) %s)", d.sortOf(t), d.zero(u.Elem()))
	case *types.Struct:
		var fs []string
		for i := 0; i < u.NumFields(); i++ {
			fs = append(fs, d.zero(u.Field(i).Type()))
		}
		return d.mkStruct(t, fs)
	}
	return "0"
}

func (d *Decls) strConst(s string) string {
	if n, ok := d.strConsts[s]; ok {
		return n
	}
	n := fmt.Sprintf("str!%d", len(d.strConsts))
	d.strConsts[s] = n
	d.declFun(n, fmt.Sprintf("(declare-const %s Int)", n))
	d.axioms = append(d.axioms, fmt.Sprintf("(assert (= (strlen %s) %d))", n, len(s)))
	if s == "" {
		d.axioms = append(d.axioms, fmt.Sprintf("(assert (= %s 0))", n))
	} else {
		d.axioms = append(d.axioms, fmt.Sprintf("(assert (> %s 0))", n))
	}
	// the bytes of a (short) constant are known: []byte("e")[0] == 'e'
	if len(s) > 0 && len(s) <= 64 {
		d.declFun("bytes.of.str", "(declare-fun bytes.of.str (Int) (Array Int Int))")
		for i := 0; i < len(s); i++ {
			d.axioms = append(d.axioms, fmt.Sprintf("(assert (= (select (bytes.of.str %s) %d) %d))", n, i, s[i]))
		}
	}
	// distinct from the other constants
	var names []string
	for _, v := range d.strConsts {
		names = append(names, v)
	}
	sort.Strings(names)
	for _, o := range names {
		if o != n {
			d.axioms = append(d.axioms, fmt.Sprintf("(assert (not (= %s %s)))", n, o))
		}
	}
	return n
}

// ---- integer ranges ----

type intRange struct {
	lo, hi *big.Int // inclusive
	bits   int
	signed bool
}

func rangeOf(t types.Type) (intRange, bool) {
	b, ok := t.Underlying().(*types.Basic)
	if !ok || b.Info()&types.IsInteger == 0 {
		return intRange{}, false
	}
	bits := 64
	signed := b.Info()&types.IsUnsigned == 0
	switch b.Kind() {
	case types.Int8, types.Uint8:
		bits = 8
	case types.Int16, types.Uint16:
		bits = 16
	case types.Int32, types.Uint32:
		bits = 32
	case types.UntypedInt, types.UntypedRune:
		return intRange{}, false
	}
	r := intRange{bits: bits, signed: signed}
	one := big.NewInt(1)
	if signed {
		r.lo = new(big.Int).Neg(new(big.Int).Lsh(one, uint(bits-1)))
		r.hi = new(big.Int).Sub(new(big.Int).Lsh(one, uint(bits-1)), one)
	} else {
		r.lo = big.NewInt(0)
		r.hi = new(big.Int).Sub(new(big.Int).Lsh(one, uint(bits)), one)
	}
	return r, true
}

func smtInt(b *big.Int) string {
	if b.Sign() < 0 {
		return "(- " + new(big.Int).Neg(b).String() + ")"
	}
	return b.String()
}

func pow2(n int) string {
	return new(big.Int).Lsh(big.NewInt(1), uint(n)).String()
}

// rangeAssume returns the formula "t is in the range of type typ" (or "" if none).
func (d *Decls) rangeAssume(t string, typ types.Type, allocTerm string, depth int) string {
	if depth > 3 {
		return ""
	}
	switch u := typ.Underlying().(type) {
	case *types.Basic:
		if r, ok := rangeOf(typ); ok {
			return fmt.Sprintf("(and (<= %s %s) (<= %s %s))", smtInt(r.lo), t, t, smtInt(r.hi))
		}
		if u.Info()&types.IsString != 0 {
			return fmt.Sprintf("(and (>= %s 0) (>= (strlen %s) 0) (<= (strlen %s) 9223372036854775807))", t, t, t)
		}
		return ""
	case *types.Pointer, *types.Map:
		if allocTerm == "" {
			return fmt.Sprintf("(>= %s 0)", t)
		}
		return fmt.Sprintf("(and (>= %s 0) (>= (base %s) 0) (< (base %s) %s) (=> (> %s 0) (> (base %s) 0)))", t, t, t, allocTerm, t, t)
	case *types.Chan, *types.Signature, *types.Interface:
		return fmt.Sprintf("(>= %s 0)", t)
	case *types.Slice:
		s := fmt.Sprintf("(and (>= (s-arr %s) 0) (>= (s-off %s) 0) (>= (s-len %s) 0) (<= (s-len %s) (s-cap %s)) (=> (= (s-arr %s) 0) (= (s-cap %s) 0)) (<= (+ (s-off %s) (s-cap %s)) 9223372036854775807)", t, t, t, t, t, t, t, t, t)
		if allocTerm != "" {
			s += fmt.Sprintf(" (>= (base (s-arr %s)) 0) (< (base (s-arr %s)) %s)", t, t, allocTerm)
		}
		return s + ")"
	case *types.Struct:
		var parts []string
		for i := 0; i < u.NumFields(); i++ {
			f := d.rangeAssume("("+d.accessor(typ, i)+" "+t+")", u.Field(i).Type(), allocTerm, depth+1)
			if f != "" {
				parts = append(parts, f)
			}
		}
		if len(parts) == 0 {
			return ""
		}
		return "(and " + strings.Join(parts, " ") + ")"
	}
	return ""
}

// heap names
func (d *Decls) fieldHeap(structT types.Type, i int) (name, sort string) {
	s, _ := isStruct(structT)
	name = "H." + structName(structT) + "." + s.Field(i).Name()
	sort = "(Array Int " + d.sortOf(s.Field(i).Type()) + ")"
	return
}

func (d *Decls) elemHeap(elem types.Type) (name, sort string) {
	es := d.sortOf(elem)
	name = "E." + canonTypeName(elem)
	sort = "(Array Int (Array Int " + es + "))"
	return
}

func (d *Decls) cellHeap(t types.Type) (name, sort string) {
	es := d.sortOf(t)
	name = "C." + sanitize(es)
	sort = "(Array Int " + es + ")"
	return
}

func (d *Decls) mapHeaps(m *types.Map) (dom, val, ln string, ks, vs string) {
	ks = d.sortOf(m.Key())
	vs = d.sortOf(m.Elem())
	tag := canonTypeName(m.Key()) + "." + canonTypeName(m.Elem())
	return "MD." + tag, "MV." + tag, "ML." + tag, ks, vs
}

func (d *Decls) heapSort(name string, sortHint string) string { return sortHint }

// emb returns the term for the address of struct-typed field i of struct at ref.
func (d *Decls) embName(structT types.Type, i int) string {
	s, _ := isStruct(structT)
	n := "emb." + structName(structT) + "." + s.Field(i).Name()
	if _, ok := d.funs[n]; !ok {
		d.declFun(n, fmt.Sprintf("(declare-fun %s (Int) Int)", n))
		d.declFun("own."+n, fmt.Sprintf("(declare-fun own.%s (Int) Int)", n))
		d.embKinds[n] = len(d.embKinds) + 1
	}
	return n
}

func (d *Decls) typeTag(t types.Type) int {
	k := canonTypeString(types.TypeString(t, nil))
	if v, ok := d.tags[k]; ok {
		return v
	}
	v := len(d.tags) + 1
	d.tags[k] = v
	return v
}

// canonTypeName: type name used in heap names; byte/uint8 and rune/int32 are the same type.
func canonTypeName(t types.Type) string {
	t = types.Unalias(t)
	if b, ok := t.(*types.Basic); ok {
		return types.Typ[b.Kind()].Name()
	}
	return shortTypeName(t)
}

var byteWord = regexp.MustCompile(`\bbyte\b`)
var runeWord = regexp.MustCompile(`\brune\b`)

// canonTypeString: byte and uint8 (rune and int32) are the same type, also as dynamic types of interface values.
func canonTypeString(s string) string {
	return runeWord.ReplaceAllString(byteWord.ReplaceAllString(s, "uint8"), "int32")
}
