package main

// Counterexample replay against the real code, and bounded stand-ins.
// Both inject an in-package test with `go test -overlay` so /repo is untouched.

import (
	"bufio"
	"bytes"
	"context"
	"encoding/json"
	"fmt"
	"go/types"
	"io"
	"os"
	"os/exec"
	"path/filepath"
	"regexp"
	"sort"
	"strings"
	"time"

	"golang.org/x/tools/go/ssa"
)

type replayResult struct {
	confirmed bool
	fields    map[string]interface{}
}

func goEnv() []string {
	return append(os.Environ(), "GOFLAGS=-mod=mod", "GOPROXY=off", "GOSUMDB=off", "GOTOOLCHAIN=local")
}

// runOverlayTest compiles testSrc as an extra _test.go file of the package in pkgDir and runs it.
func runOverlayTest(repo, pkgDir, testName, testSrc, runPattern string, timeout time.Duration) (string, error) {
	dir := filepath.Join(scratch(), "ov")
	os.MkdirAll(dir, 0755)
	src := filepath.Join(dir, testName)
	if err := os.WriteFile(src, []byte(testSrc), 0644); err != nil {
		return "", err
	}
	target := filepath.Join(repo, pkgDir, testName)
	ov := map[string]map[string]string{"Replace": {target: src}}
	ovb, _ := json.Marshal(ov)
	ovf := filepath.Join(dir, testName+".overlay.json")
	os.WriteFile(ovf, ovb, 0644)
	ctx, cancel := context.WithTimeout(context.Background(), timeout+60*time.Second)
	defer cancel()
	cmd := exec.CommandContext(ctx, "go", "test", "-overlay", ovf, "-vet=off", "-v", "-count=1", "-timeout", fmt.Sprintf("%ds", int(timeout.Seconds())), "-run", runPattern, "./"+pkgDir)
	cmd.Dir = repo
	cmd.Env = goEnv()
	var buf bytes.Buffer
	cmd.Stdout = &buf
	cmd.Stderr = &buf
	err := cmd.Run()
	return buf.String(), err
}

func runBounded(repo, verif string, bc BoundedCheck, thorough bool, seed int) map[string]interface{} {
	res := map[string]interface{}{"name": bc.Name, "bound": bc.Bound, "label": "bounded (not counted as proved)"}
	src, err := os.ReadFile(filepath.Join(verif, "bounded", bc.File))
	if err != nil {
		res["status"] = "error"
		res["output"] = err.Error()
		return res
	}
	os.Setenv("VERIF_TIER", map[bool]string{true: "thorough", false: "quick"}[thorough])
	os.Setenv("VERIF_SEED", fmt.Sprint(seed))
	to := 120 * time.Second
	if thorough {
		to = 900 * time.Second
	}
	out, err := runOverlayTest(repo, bc.Pkg, "zz_verif_bounded_"+sanitize(bc.Name)+"_test.go", string(src), bc.Run, to)
	res["output"] = truncate(out, 3000)
	if m := regexp.MustCompile(`BOUNDED-CASES (\d+)`).FindStringSubmatch(out); m != nil {
		var n int
		fmt.Sscanf(m[1], "%d", &n)
		res["cases"] = n
	}
	if err != nil || !strings.Contains(out, "ok") {
		res["status"] = "fail"
	} else {
		res["status"] = "pass"
	}
	return res
}

// ---------- model sessions ----------

type modelSession struct {
	cmd *exec.Cmd
	in  io.WriteCloser
	out *bufio.Reader
}

func startModelSession(script string, prefs ...string) (*modelSession, string) {
	cmd := exec.Command("z3-new", "-in", "-T:30")
	in, _ := cmd.StdinPipe()
	outp, _ := cmd.StdoutPipe()
	cmd.Stderr = cmd.Stdout
	if err := cmd.Start(); err != nil {
		return nil, err.Error()
	}
	ms := &modelSession{cmd: cmd, in: in, out: bufio.NewReader(outp)}
	body := strings.TrimSuffix(strings.TrimSpace(script), "(check-sat)")
	io.WriteString(in, "(set-option :produce-models true)\n"+body+"\n(check-sat)\n")
	for {
		line, err := ms.out.ReadString('\n')
		if err != nil {
			ms.close()
			return nil, "solver ended: " + line
		}
		l := strings.TrimSpace(line)
		if l == "sat" {
			break
		}
		if l == "unsat" || l == "unknown" || l == "timeout" {
			ms.close()
			return nil, l
		}
	}
	if len(prefs) == 0 {
		return ms, ""
	}
	// prefer a small model (short slices): try the preferences, fall back to the unconstrained model
	readStatus := func() string {
		for {
			line, err := ms.out.ReadString('\n')
			if err != nil {
				return "ended"
			}
			l := strings.TrimSpace(line)
			if l == "sat" || l == "unsat" || l == "unknown" || l == "timeout" {
				return l
			}
		}
	}
	io.WriteString(in, "(push)\n")
	for _, pf := range prefs {
		io.WriteString(in, "(assert "+pf+")\n")
	}
	io.WriteString(in, "(check-sat)\n")
	if readStatus() == "sat" {
		return ms, ""
	}
	io.WriteString(in, "(pop)\n(check-sat)\n")
	if st := readStatus(); st != "sat" {
		ms.close()
		return nil, st
	}
	return ms, ""
}

func (ms *modelSession) close() {
	ms.in.Close()
	ms.cmd.Process.Kill()
	ms.cmd.Wait()
}

// value evaluates a term in the current model; returns "" on failure.
func (ms *modelSession) value(term string) string {
	io.WriteString(ms.in, "(get-value ("+term+"))\n")
	// read one balanced s-expression
	var sb strings.Builder
	depth := 0
	started := false
	for {
		b, err := ms.out.ReadByte()
		if err != nil {
			return ""
		}
		if !started && (b == ' ' || b == '\n') {
			continue
		}
		sb.WriteByte(b)
		if b == '(' {
			depth++
			started = true
		}
		if b == ')' {
			depth--
			if depth == 0 {
				break
			}
		}
		if !started && b != '(' {
			// error message line
			rest, _ := ms.out.ReadString('\n')
			_ = rest
			return ""
		}
	}
	vals := parseGetValues(sb.String())
	if len(vals) == 0 {
		return ""
	}
	return vals[0]
}

var negNum = regexp.MustCompile(`^\(- (\d+)\)$`)
var plainNum = regexp.MustCompile(`^\d+$`)

func smtNum(s string) (string, bool) {
	s = strings.TrimSpace(s)
	if m := negNum.FindStringSubmatch(s); m != nil {
		return "-" + m[1], true
	}
	if plainNum.MatchString(s) {
		return s, true
	}
	return "", false
}

// ---------- counterexample replay ----------

type replayGen struct {
	vc      *VC
	w       *World
	ms      *modelSession
	pkg     *types.Package
	imports map[string]string // path -> name
	reason  string
	model   map[string]string
	objs    map[string]string // ref value -> Go variable
	stmts   []string
	nvar    int
}

func (g *replayGen) qual(p *types.Package) string {
	if p == g.pkg {
		return ""
	}
	g.imports[p.Path()] = p.Name()
	return p.Name()
}

func (g *replayGen) val(term string) string {
	v := g.ms.value(term)
	g.model[term] = v
	return v
}

func (g *replayGen) fail(format string, args ...interface{}) (string, bool) {
	if g.reason == "" {
		g.reason = fmt.Sprintf(format, args...)
	}
	return "", false
}

func exportedOrLocal(f *types.Var, pkg *types.Package) bool {
	return f.Exported() || f.Pkg() == pkg
}

// expr builds a Go expression for the value of SMT term `term` of Go type typ in the entry state.
func (g *replayGen) expr(term string, typ types.Type, depth int) (string, bool) {
	if depth > 4 {
		return g.fail("input nesting too deep")
	}
	ts := types.TypeString(typ, g.qual)
	if named, ok := typ.(*types.Named); ok && named.Obj().Pkg() != nil && named.Obj().Pkg().Path() == "time" && named.Obj().Name() == "Time" {
		if _, declared := g.vc.d.funs["spec.tns"]; !declared {
			g.imports["time"] = "time"
			return "time.Time{}", true
		}
		ns, ok := smtNum(g.val("(spec.tns " + term + ")"))
		if !ok {
			return g.fail("no instant for time value")
		}
		g.imports["time"] = "time"
		g.imports["math/big"] = "big"
		return fmt.Sprintf("verifTime(%q)", ns), true
	}
	switch u := typ.Underlying().(type) {
	case *types.Basic:
		v := g.val(term)
		switch {
		case u.Info()&types.IsBoolean != 0:
			if v != "true" && v != "false" {
				return g.fail("no boolean model value for %s", term)
			}
			return v, true
		case u.Info()&types.IsInteger != 0:
			n, ok := smtNum(v)
			if !ok {
				return g.fail("no numeric model value for %s (%s)", term, v)
			}
			return fmt.Sprintf("%s(%s)", ts, n), true
		case u.Info()&types.IsString != 0:
			return `""`, true
		}
		return g.fail("unsupported basic type %s", typ)
	case *types.Struct:
		var fs []string
		for i := 0; i < u.NumFields(); i++ {
			f := u.Field(i)
			ft := f.Type()
			if !exportedOrLocal(f, g.pkg) {
				continue // foreign unexported field: left zero
			}
			if isSyncType(ft) {
				continue
			}
			l, ok := g.expr(fmt.Sprintf("(%s %s)", g.vc.d.accessor(typ, i), term), ft, depth+1)
			if !ok {
				return "", false
			}
			fs = append(fs, f.Name()+": "+l)
		}
		return ts + "{" + strings.Join(fs, ", ") + "}", true
	case *types.Pointer:
		rv, ok := smtNum(g.val(term))
		if !ok {
			return g.fail("no model value for pointer")
		}
		if rv == "0" {
			return "nil", true
		}
		if v, ok := g.objs[rv+ts]; ok {
			return v, true
		}
		if _, ok := isStruct(u.Elem()); ok {
			lit, ok := g.structAt(rv, u.Elem(), depth+1)
			if !ok {
				return "", false
			}
			g.nvar++
			vn := fmt.Sprintf("obj%d", g.nvar)
			g.stmts = append(g.stmts, fmt.Sprintf("%s := &%s", vn, lit))
			g.objs[rv+ts] = vn
			return vn, true
		}
		return g.fail("pointer to %s", u.Elem())
	case *types.Slice:
		arr, _ := smtNum(g.val("(s-arr " + term + ")"))
		if arr == "0" {
			return "nil", true
		}
		n, ok := smtNum(g.val("(s-len " + term + ")"))
		if !ok {
			return g.fail("no slice length")
		}
		var ln int
		fmt.Sscanf(n, "%d", &ln)
		if ln > 24 {
			return g.fail("model slice too long (%d)", ln)
		}
		off, _ := smtNum(g.val("(s-off " + term + ")"))
		hn, _ := g.vc.d.elemHeap(u.Elem())
		var els []string
		for i := 0; i < ln; i++ {
			et := fmt.Sprintf("(select (select %s!0 %s) (+ %s %d))", hn, arr, off, i)
			if _, ok := g.vc.heapSorts[hn]; !ok {
				els = append(els, zeroLit(u.Elem(), g.qual))
				continue
			}
			l, ok := g.expr(et, u.Elem(), depth+1)
			if !ok {
				return "", false
			}
			els = append(els, l)
		}
		return ts + "{" + strings.Join(els, ", ") + "}", true
	case *types.Array:
		if u.Len() > 64 {
			return g.fail("array too long")
		}
		var els []string
		for i := int64(0); i < u.Len(); i++ {
			l, ok := g.expr(fmt.Sprintf("(select %s %d)", term, i), u.Elem(), depth+1)
			if !ok {
				return "", false
			}
			els = append(els, l)
		}
		return ts + "{" + strings.Join(els, ", ") + "}", true
	case *types.Signature, *types.Interface, *types.Chan:
		rv, _ := smtNum(g.val(term))
		if rv == "0" {
			return "nil", true
		}
		return g.fail("non-nil %s input", typ)
	case *types.Map:
		rv, _ := smtNum(g.val(term))
		if rv == "0" {
			return "nil", true
		}
		return g.fail("map input")
	}
	return g.fail("unsupported input type %s", typ)
}

func isSyncType(t types.Type) bool {
	s := t.String()
	return strings.HasPrefix(s, "sync.") || strings.HasPrefix(s, "*sync.") || strings.HasPrefix(s, "sync/atomic.")
}

func zeroLit(t types.Type, q types.Qualifier) string {
	switch t.Underlying().(type) {
	case *types.Basic:
		b := t.Underlying().(*types.Basic)
		if b.Info()&types.IsBoolean != 0 {
			return "false"
		}
		if b.Info()&types.IsString != 0 {
			return `""`
		}
		return types.TypeString(t, q) + "(0)"
	case *types.Struct, *types.Array:
		return types.TypeString(t, q) + "{}"
	}
	return "nil"
}

// structAt builds a composite literal for the struct of type T stored at ref in the entry heap.
func (g *replayGen) structAt(ref string, T types.Type, depth int) (string, bool) {
	s, _ := isStruct(T)
	ts := types.TypeString(T, g.qual)
	var fs []string
	for i := 0; i < s.NumFields(); i++ {
		f := s.Field(i)
		ft := f.Type()
		if !exportedOrLocal(f, g.pkg) || isSyncType(ft) {
			continue
		}
		if _, ok := isStruct(ft); ok {
			en := g.vc.d.embName(T, i)
			if _, ok := g.vc.d.funs[en]; !ok {
				continue
			}
			er, ok := smtNum(g.val(fmt.Sprintf("(%s %s)", en, ref)))
			if !ok {
				continue
			}
			lit, ok := g.structAt(er, ft, depth+1)
			if !ok {
				return "", false
			}
			fs = append(fs, f.Name()+": "+lit)
			continue
		}
		if a, ok := ft.Underlying().(*types.Array); ok {
			// array-typed field: element heap at the field's address
			en := g.vc.d.embName(T, i)
			ehn, _ := g.vc.d.elemHeap(a.Elem())
			if _, ok := g.vc.heapSorts[ehn]; !ok {
				continue
			}
			if _, ok := g.vc.d.funs[en]; !ok {
				continue
			}
			l, ok := g.expr(fmt.Sprintf("(select %s!0 (%s %s))", ehn, en, ref), ft, depth+1)
			if !ok {
				return "", false
			}
			fs = append(fs, f.Name()+": "+l)
			continue
		}
		hn, _ := g.vc.d.fieldHeap(T, i)
		if _, ok := g.vc.heapSorts[hn]; !ok {
			continue // never read: zero
		}
		l, ok := g.expr(fmt.Sprintf("(select %s!0 %s)", hn, ref), ft, depth+1)
		if !ok {
			return "", false
		}
		fs = append(fs, f.Name()+": "+l)
	}
	return ts + "{" + strings.Join(fs, ", ") + "}", true
}

// scalarLeaves lists printable Go expressions for the scalar fields reachable from a value.
func (g *replayGen) scalarLeaves(goExpr string, smtRef string, T types.Type, st *State, depth int, out *[][2]string) {
	if depth > 3 {
		return
	}
	s, ok := isStruct(T)
	if !ok {
		return
	}
	for i := 0; i < s.NumFields(); i++ {
		f := s.Field(i)
		ft := f.Type()
		if !exportedOrLocal(f, g.pkg) || isSyncType(ft) {
			continue
		}
		if _, ok := isStruct(ft); ok {
			en := g.vc.d.embName(T, i)
			if _, ok := g.vc.d.funs[en]; !ok {
				continue
			}
			g.scalarLeaves(goExpr+"."+f.Name(), fmt.Sprintf("(%s %s)", en, smtRef), ft, st, depth+1, out)
			continue
		}
		if b, ok := ft.Underlying().(*types.Basic); ok && b.Info()&(types.IsInteger|types.IsBoolean) != 0 {
			hn, hs := g.vc.d.fieldHeap(T, i)
			if _, ok := g.vc.heapSorts[hn]; !ok {
				continue
			}
			*out = append(*out, [2]string{goExpr + "." + f.Name(), fmt.Sprintf("(select %s %s)", g.vc.heap(st, hn, hs), smtRef)})
		}
	}
}

func tryReplay(w *World, o *Obligation, repo, replayDir string) *replayResult {
	vc := o.vc
	rr := &replayResult{fields: map[string]interface{}{}}
	if vc.fn == nil || vc.fn.Pkg == nil {
		rr.fields["replay"] = "not a top-level function: no executable replay"
		return rr
	}
	fn := vc.fn
	var prefs []string
	for _, p := range fn.Params {
		if _, ok := p.Type().Underlying().(*types.Slice); ok {
			prefs = append(prefs, fmt.Sprintf("(<= (s-len %s) 6)", vc.vals[p]))
		}
	}
	ms, why := startModelSession(o.script(false), prefs...)
	if ms == nil {
		rr.fields["replay"] = "no model from z3-new (" + why + ")"
		return rr
	}
	defer ms.close()
	g := &replayGen{vc: vc, w: w, ms: ms, pkg: fn.Pkg.Pkg, imports: map[string]string{"fmt": "fmt", "testing": "testing"}, model: map[string]string{}, objs: map[string]string{}}
	var args []string
	params := fn.Params
	recv := ""
	for i, p := range params {
		l, ok := g.expr(vc.vals[p], p.Type(), 0)
		if !ok {
			rr.fields["replay"] = "inputs cannot be built by the replay generator: " + g.reason
			rr.fields["model"] = g.model
			return rr
		}
		if i == 0 && fn.Signature.Recv() != nil {
			recv = l
			continue
		}
		args = append(args, l)
	}
	call := fn.Name() + "(" + strings.Join(args, ", ") + ")"
	if recv != "" {
		call = "(" + recv + ")." + call
	}
	// predicted outcome
	var ret *ssa.Return
	if o.retInstr != nil {
		ret = o.retInstr
	}
	nres := fn.Signature.Results().Len()
	var predicted []string
	var printed []string
	if ret != nil {
		for i, r := range ret.Results {
			if b, ok := r.Type().Underlying().(*types.Basic); ok && b.Info()&(types.IsInteger|types.IsBoolean) != 0 {
				v := g.val(vc.val(r))
				if n, ok := smtNum(v); ok {
					v = n
				}
				predicted = append(predicted, fmt.Sprintf("r%d=%s", i, v))
				verb := "%v"
				if b.Info()&types.IsInteger != 0 {
					verb = "%d"
				}
				printed = append(printed, fmt.Sprintf("fmt.Sprintf(\"r%d=%s\", r%d)", i, verb, i))
			} else if _, ok := r.Type().Underlying().(*types.Interface); ok {
				v, _ := smtNum(g.val(vc.val(r)))
				isnil := "false"
				if v == "0" {
					isnil = "true"
				}
				predicted = append(predicted, fmt.Sprintf("r%d.isnil=%s", i, isnil))
				printed = append(printed, fmt.Sprintf("fmt.Sprintf(\"r%d.isnil=%%v\", r%d == nil)", i, i))
			}
		}
		if o.st != nil {
			for i, p := range params {
				pt, ok := p.Type().Underlying().(*types.Pointer)
				if !ok {
					continue
				}
				rv, ok := smtNum(g.val(vc.vals[p]))
				if !ok || rv == "0" {
					continue
				}
				goName := g.objs[rv+types.TypeString(p.Type(), g.qual)]
				if goName == "" {
					continue
				}
				var leaves [][2]string
				g.scalarLeaves(goName, vc.vals[p], pt.Elem(), o.st, 0, &leaves)
				_ = i
				for _, lf := range leaves {
					v := g.val(lf[1])
					if n, ok := smtNum(v); ok {
						v = n
					}
					predicted = append(predicted, fmt.Sprintf("%s=%s", lf[0], v))
					printed = append(printed, fmt.Sprintf("fmt.Sprintf(\"%s=%%v\", %s)", lf[0], lf[0]))
				}
			}
		}
	}
	rr.fields["model"] = g.model
	rr.fields["predicted_outcome"] = predicted
	// test source
	var sb strings.Builder
	sb.WriteString("package " + fn.Pkg.Pkg.Name() + "\n\nimport (\n")
	var ips []string
	for p := range g.imports {
		ips = append(ips, p)
	}
	sort.Strings(ips)
	for _, p := range ips {
		sb.WriteString(fmt.Sprintf("\t%s %q\n", g.imports[p], p))
	}
	sb.WriteString(")\n\n")
	if _, ok := g.imports["math/big"]; ok {
		sb.WriteString("func verifTime(ns string) time.Time {\n\tn, _ := new(big.Int).SetString(ns, 10)\n\tsec, nsec := new(big.Int).DivMod(n, big.NewInt(1000000000), new(big.Int))\n\treturn time.Unix(sec.Int64(), nsec.Int64())\n}\n\n")
	}
	sb.WriteString("func TestVerifReplay(t *testing.T) {\n")
	for _, s := range g.stmts {
		sb.WriteString("\t" + s + "\n")
	}
	sb.WriteString("\tdefer func() {\n\t\tif r := recover(); r != nil {\n\t\t\tfmt.Println(\"REPLAY-OUTCOME panic:\", r)\n\t\t}\n\t}()\n")
	var rs []string
	for i := 0; i < nres; i++ {
		rs = append(rs, fmt.Sprintf("r%d", i))
	}
	if nres > 0 {
		sb.WriteString("\t" + strings.Join(rs, ", ") + " := " + call + "\n")
		for _, r := range rs {
			sb.WriteString("\t_ = " + r + "\n")
		}
	} else {
		sb.WriteString("\t" + call + "\n")
	}
	sb.WriteString("\tfmt.Println(\"REPLAY-OUTCOME returned\")\n")
	for _, p := range printed {
		sb.WriteString("\tfmt.Println(\"REPLAY-REAL\", " + p + ")\n")
	}
	sb.WriteString("}\n")
	src := sb.String()
	rr.fields["replay_test"] = src
	pkgDir := strings.TrimPrefix(fn.Pkg.Pkg.Path(), strings.TrimSuffix(modPrefix, "/"))
	pkgDir = strings.TrimPrefix(pkgDir, "/")
	outp, _ := runOverlayTest(repo, pkgDir, "zz_verif_replay_test.go", src, "TestVerifReplay", 60*time.Second)
	rr.fields["replay_output"] = truncate(outp, 3000)
	rr.fields["replay_cmd"] = "go test -overlay <zz_verif_replay_test.go injected> -vet=off -run TestVerifReplay ./" + pkgDir
	if !strings.Contains(outp, "REPLAY-OUTCOME") {
		rr.fields["replay"] = "replay test did not run"
		return rr
	}
	panicked := strings.Contains(outp, "REPLAY-OUTCOME panic")
	switch {
	case strings.HasPrefix(o.Kind, "safety") || o.Kind == "panic.unreachable" || o.Kind == "panics.site" || strings.HasSuffix(o.Kind, ".nopanic"):
		if panicked {
			rr.confirmed = true
			rr.fields["replay"] = "confirmed: the real function panics on the solver's input"
		} else {
			rr.fields["replay"] = "not confirmed: the real function did not panic on this input"
		}
	case o.Kind == "panics.return":
		if !panicked {
			rr.confirmed = true
			rr.fields["replay"] = "confirmed: the real function returns normally on an input the contract says must be rejected"
		} else {
			rr.fields["replay"] = "not confirmed"
		}
	case o.Kind == "ensures" || o.Kind == "frame":
		if panicked || len(predicted) == 0 {
			rr.fields["replay"] = "not confirmed: outcome not comparable"
			break
		}
		all := true
		for _, p := range predicted {
			if !strings.Contains(outp, "REPLAY-REAL "+p+"\n") {
				all = false
			}
		}
		if all {
			rr.confirmed = true
			rr.fields["replay"] = "confirmed: the real outcome equals the outcome the solver showed to falsify the clause"
		} else {
			rr.fields["replay"] = "ENGINE-MISMATCH or unmodelled nondeterminism: real outcome differs from the predicted one"
		}
	default:
		rr.fields["replay"] = "executed; obligation kind " + o.Kind + " has no executable confirmation"
	}
	return rr
}
