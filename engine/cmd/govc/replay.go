package main

// Counterexample replay against the real code, and bounded stand-ins.
// Both inject an in-package test with `go test -overlay` so /repo is untouched.

import (
	"bytes"
	"context"
	"encoding/json"
	"fmt"
	"go/types"
	"os"
	"os/exec"
	"path/filepath"
	"regexp"
	"strings"
	"time"

	"golang.org/x/tools/go/ssa"
)

type replayResult struct {
	confirmed bool
	fields    map[string]interface{}
}

func goEnv() []string {
	return append(os.Environ(), "GOFLAGS=-mod=mod", "GOPROXY=off", "GOSUMDB=off", "GOTOOLCHAIN=local")
}

// runOverlayTest compiles testSrc as an extra _test.go file of the package in pkgDir and runs it.
func runOverlayTest(repo, pkgDir, testName, testSrc, runPattern string, timeout time.Duration) (string, error) {
	dir := filepath.Join(scratch(), "ov")
	os.MkdirAll(dir, 0755)
	src := filepath.Join(dir, testName)
	if err := os.WriteFile(src, []byte(testSrc), 0644); err != nil {
		return "", err
	}
	target := filepath.Join(repo, pkgDir, testName)
	ov := map[string]map[string]string{"Replace": {target: src}}
	ovb, _ := json.Marshal(ov)
	ovf := filepath.Join(dir, testName+".overlay.json")
	os.WriteFile(ovf, ovb, 0644)
	ctx, cancel := context.WithTimeout(context.Background(), timeout+30*time.Second)
	defer cancel()
	cmd := exec.CommandContext(ctx, "go", "test", "-overlay", ovf, "-vet=off", "-count=1", "-timeout", fmt.Sprintf("%ds", int(timeout.Seconds())), "-run", runPattern, "./"+pkgDir)
	cmd.Dir = repo
	cmd.Env = goEnv()
	var buf bytes.Buffer
	cmd.Stdout = &buf
	cmd.Stderr = &buf
	err := cmd.Run()
	return buf.String(), err
}

func runBounded(repo, verif string, bc BoundedCheck, thorough bool, seed int) map[string]interface{} {
	res := map[string]interface{}{"name": bc.Name, "bound": bc.Bound, "label": "bounded (not counted as proved)"}
	src, err := os.ReadFile(filepath.Join(verif, "bounded", bc.File))
	if err != nil {
		res["status"] = "error"
		res["output"] = err.Error()
		return res
	}
	os.Setenv("VERIF_TIER", map[bool]string{true: "thorough", false: "quick"}[thorough])
	os.Setenv("VERIF_SEED", fmt.Sprint(seed))
	to := 120 * time.Second
	if thorough {
		to = 900 * time.Second
	}
	out, err := runOverlayTest(repo, bc.Pkg, "zz_verif_bounded_"+sanitize(bc.Name)+"_test.go", string(src), bc.Run, to)
	res["output"] = truncate(out, 3000)
	if m := regexp.MustCompile(`BOUNDED-CASES (\d+)`).FindStringSubmatch(out); m != nil {
		var n int
		fmt.Sscanf(m[1], "%d", &n)
		res["cases"] = n
	}
	if err != nil || !strings.Contains(out, "ok") {
		res["status"] = "fail"
	} else {
		res["status"] = "pass"
	}
	return res
}

// ---------- counterexample replay ----------

// tryReplay: for a sat obligation of a function whose inputs are simple
// (integers, booleans, slices of integers/simple structs, simple struct
// receivers), build the inputs from the model, call the real function and compare the
// real outcome with the outcome the solver predicted.
func tryReplay(w *World, o *Obligation, repo, replayDir string) *replayResult {
	vc := o.vc
	if vc.fn == nil {
		return nil
	}
	rr := &replayResult{fields: map[string]interface{}{}}
	fn := vc.fn
	// terms to query
	var terms []string
	for _, p := range fn.Params {
		terms = append(terms, modelTermsFor(vc, vc.vals[p], p.Type(), 0)...)
	}
	script := o.script(false)
	script = strings.TrimSuffix(strings.TrimSpace(script), "(check-sat)") + "\n(check-sat)\n"
	model, out := getModel(script, terms, o.Result.Solver, 20)
	if model == nil {
		rr.fields["replay"] = "model extraction failed: " + truncate(out, 500)
		return rr
	}
	rr.fields["model"] = model
	gen := &replayGen{vc: vc, model: model, w: w}
	src, ok := gen.generate(o)
	if !ok {
		rr.fields["replay"] = "inputs of this function cannot be built by the replay generator: " + gen.reason
		return rr
	}
	rr.fields["replay_test"] = src
	pkgDir := strings.TrimPrefix(pkgOfKey(vc.funcName), modPrefix)
	outp, err := runOverlayTest(repo, pkgDir, "zz_verif_replay_test.go", src, "TestVerifReplay", 60*time.Second)
	rr.fields["replay_output"] = truncate(outp, 3000)
	if err != nil && !strings.Contains(outp, "REPLAY-OUTCOME") {
		rr.fields["replay"] = "replay test did not run"
		return rr
	}
	rr.fields["replay"] = "executed against the real code"
	// the generated test prints REPLAY-VIOLATED when the real outcome falsifies the clause
	if strings.Contains(outp, "REPLAY-VIOLATED") {
		rr.confirmed = true
	}
	return rr
}

func modelTermsFor(vc *VC, t string, typ types.Type, depth int) []string {
	if t == "" || depth > 2 {
		return nil
	}
	switch u := typ.Underlying().(type) {
	case *types.Basic:
		return []string{t}
	case *types.Struct:
		var res []string
		for i := 0; i < u.NumFields(); i++ {
			res = append(res, modelTermsFor(vc, fmt.Sprintf("(%s %s)", vc.d.accessor(typ, i), t), u.Field(i).Type(), depth+1)...)
		}
		return res
	case *types.Slice:
		return []string{"(s-len " + t + ")", "(s-off " + t + ")", "(s-arr " + t + ")"}
	case *types.Pointer:
		if s, ok := isStruct(u.Elem()); ok {
			var res []string
			res = append(res, t)
			for i := 0; i < s.NumFields(); i++ {
				ft := s.Field(i).Type()
				if _, isS := isStruct(ft); isS {
					continue
				}
				hn, hs := vc.d.fieldHeap(u.Elem(), i)
				if _, declared := vc.heapSorts[hn]; !declared {
					continue
				}
				_ = hs
				res = append(res, modelTermsFor(vc, fmt.Sprintf("(select %s!0 %s)", hn, t), ft, depth+1)...)
			}
			return res
		}
	}
	return nil
}

type replayGen struct {
	vc     *VC
	w      *World
	model  map[string]string
	reason string
	extraQ []string
}

var negNum = regexp.MustCompile(`^\(- (\d+)\)$`)

func smtNum(s string) (string, bool) {
	s = strings.TrimSpace(s)
	if m := negNum.FindStringSubmatch(s); m != nil {
		return "-" + m[1], true
	}
	if regexp.MustCompile(`^\d+$`).MatchString(s) {
		return s, true
	}
	return "", false
}

func (g *replayGen) lit(t string, typ types.Type, qual types.Qualifier) (string, bool) {
	switch u := typ.Underlying().(type) {
	case *types.Basic:
		v, ok := g.model[t]
		if !ok {
			g.reason = "no model value for " + t
			return "", false
		}
		if u.Info()&types.IsBoolean != 0 {
			return v, true
		}
		if u.Info()&types.IsInteger != 0 {
			n, ok := smtNum(v)
			if !ok {
				g.reason = "non-numeric model value " + v
				return "", false
			}
			return fmt.Sprintf("%s(%s)", types.TypeString(typ, qual), n), true
		}
		g.reason = "unsupported basic type " + typ.String()
		return "", false
	case *types.Struct:
		var fs []string
		for i := 0; i < u.NumFields(); i++ {
			l, ok := g.lit(fmt.Sprintf("(%s %s)", g.vc.d.accessor(typ, i), t), u.Field(i).Type(), qual)
			if !ok {
				return "", false
			}
			fs = append(fs, u.Field(i).Name()+": "+l)
		}
		return types.TypeString(typ, qual) + "{" + strings.Join(fs, ", ") + "}", true
	}
	g.reason = "unsupported input type " + typ.String()
	return "", false
}

// generate builds a test for functions whose parameters are scalars / flat structs
// (the shape of the arithmetic functions where quantifier-free models exist).
func (g *replayGen) generate(o *Obligation) (string, bool) {
	fn := g.vc.fn
	pkg := fn.Pkg
	if pkg == nil {
		g.reason = "closure"
		return "", false
	}
	qual := types.RelativeTo(pkg.Pkg)
	imports := map[string]bool{}
	qual2 := func(p *types.Package) string {
		if p == pkg.Pkg {
			return ""
		}
		imports[p.Path()] = true
		return p.Name()
	}
	_ = qual
	var args []string
	var recv string
	params := fn.Params
	if fn.Signature.Recv() != nil {
		l, ok := g.lit(g.vc.vals[params[0]], params[0].Type(), qual2)
		if !ok {
			return "", false
		}
		recv = l
		params = params[1:]
	}
	for _, p := range params {
		l, ok := g.lit(g.vc.vals[p], p.Type(), qual2)
		if !ok {
			return "", false
		}
		args = append(args, l)
	}
	call := fn.Name() + "(" + strings.Join(args, ", ") + ")"
	if recv != "" {
		call = "(" + recv + ")." + call
	}
	nres := fn.Signature.Results().Len()
	var sb strings.Builder
	sb.WriteString("package " + pkg.Pkg.Name() + "\n\nimport (\n\t\"fmt\"\n\t\"testing\"\n")
	for ip := range imports {
		sb.WriteString("\t\"" + ip + "\"\n")
	}
	sb.WriteString(")\n\n")
	sb.WriteString("func TestVerifReplay(t *testing.T) {\n")
	sb.WriteString("\tdefer func() {\n\t\tif r := recover(); r != nil {\n\t\t\tfmt.Println(\"REPLAY-OUTCOME panic:\", r)\n")
	if o.Kind == "panics.site" || strings.HasPrefix(o.Kind, "safety") || o.Kind == "panic.unreachable" {
		sb.WriteString("\t\t\tfmt.Println(\"REPLAY-VIOLATED: the real function panics on this input\")\n")
	}
	sb.WriteString("\t\t}\n\t}()\n")
	var rs []string
	for i := 0; i < nres; i++ {
		rs = append(rs, fmt.Sprintf("r%d", i))
	}
	if nres > 0 {
		sb.WriteString("\t" + strings.Join(rs, ", ") + " := " + call + "\n")
		sb.WriteString("\tfmt.Println(\"REPLAY-OUTCOME returned:\", " + strings.Join(rs, ", ") + ")\n")
	} else {
		sb.WriteString("\t" + call + "\n\tfmt.Println(\"REPLAY-OUTCOME returned\")\n")
	}
	// compare with the outcome predicted by the solver for the results
	if o.Kind == "ensures" || o.Kind == "panics.return" {
		// the predicted results are queried separately
		pred := g.predictedResults(o)
		if pred != nil && len(pred) == nres {
			var conds []string
			for i, p := range pred {
				conds = append(conds, fmt.Sprintf("fmt.Sprint(r%d) == %q", i, p))
			}
			if len(conds) > 0 {
				sb.WriteString("\tif " + strings.Join(conds, " && ") + " {\n\t\tfmt.Println(\"REPLAY-VIOLATED: real results equal the results the solver showed to falsify the clause\")\n\t}\n")
			}
		}
		if o.Kind == "panics.return" {
			sb.WriteString("\tfmt.Println(\"REPLAY-VIOLATED: the real function returns normally on an input the contract says must be rejected\")\n")
		}
	}
	sb.WriteString("}\n")
	return sb.String(), true
}

func (g *replayGen) predictedResults(o *Obligation) []string {
	vc := g.vc
	// find the return instruction of the obligation's block: results of the unique Return whose reach is o.reach
	var ret *ssa.Return
	for _, b := range vc.fn.Blocks {
		if vc.reach[b] == o.reach {
			if r, ok := b.Instrs[len(b.Instrs)-1].(*ssa.Return); ok {
				ret = r
			}
		}
	}
	if ret == nil {
		return nil
	}
	var terms []string
	for _, r := range ret.Results {
		if _, ok := r.Type().Underlying().(*types.Basic); !ok {
			return nil
		}
		terms = append(terms, vc.val(r))
	}
	script := o.script(false)
	m, _ := getModel(script, append(terms, g.inputPins()...), o.Result.Solver, 20)
	if m == nil {
		return nil
	}
	var res []string
	for _, t := range terms {
		v := m[t]
		if n, ok := smtNum(v); ok {
			res = append(res, n)
		} else {
			res = append(res, v)
		}
	}
	return res
}

func (g *replayGen) inputPins() []string { return nil }
