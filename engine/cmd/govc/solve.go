package main

// Solver portfolio: z3-new (5.x), z3 (4.8), cvc5.

import (
	"bytes"
	"context"
	"fmt"
	"os"
	"os/exec"
	"path/filepath"
	"strings"
	"sync"
	"time"
)

type SolveResult struct {
	Status string  `json:"status"` // unsat, sat, unknown, timeout, error
	Solver string  `json:"solver"`
	Ms     int64   `json:"ms"`
	Output string  `json:"output,omitempty"`
	Second string  `json:"second_solver,omitempty"`
}

type solverDef struct {
	name string
	args func(file string, secs int) []string
}

var solvers = []solverDef{
	{"z3-new", func(f string, s int) []string { return []string{"z3-new", fmt.Sprintf("-T:%d", s), f} }},
	{"z3", func(f string, s int) []string { return []string{"z3", fmt.Sprintf("-T:%d", s), f} }},
	{"cvc5", func(f string, s int) []string {
		return []string{"cvc5", "--incremental", fmt.Sprintf("--tlimit=%d", s*1000), f}
	}},
	// z3 5.x with pure E-matching (no model-based quantifier instantiation, no automatic configuration): decides many
	// quantifier-heavy goals in seconds on which the default configuration diverges
	{"z3-new-ematch", func(f string, s int) []string {
		return []string{"z3-new", fmt.Sprintf("-T:%d", s), "smt.auto_config=false", "smt.mbqi=false", f}
	}},
}

var scratchDir string
var scratchOnce sync.Once

func scratch() string {
	scratchOnce.Do(func() {
		base := os.Getenv("TMPDIR")
		if base == "" {
			base = "/tmp"
		}
		d, err := os.MkdirTemp(base, "govc-")
		if err != nil {
			panic(err)
		}
		scratchDir = d
	})
	return scratchDir
}

func cleanupScratch() {
	if scratchDir != "" {
		os.RemoveAll(scratchDir)
	}
}

func runSolver(ctx context.Context, sd solverDef, file string, secs int) (status, out string) {
	argv := sd.args(file, secs)
	cctx, cancel := context.WithTimeout(ctx, time.Duration(secs+2)*time.Second)
	defer cancel()
	cmd := exec.CommandContext(cctx, argv[0], argv[1:]...)
	var buf bytes.Buffer
	cmd.Stdout = &buf
	cmd.Stderr = &buf
	_ = cmd.Run()
	out = buf.String()
	first := ""
	for _, l := range strings.Split(out, "\n") {
		l = strings.TrimSpace(l)
		if l == "" || strings.HasPrefix(l, "WARNING") || strings.HasPrefix(l, "(warning") {
			continue
		}
		first = l
		break
	}
	switch first {
	case "unsat", "sat", "unknown":
		return first, out
	case "timeout":
		return "timeout", out
	}
	if cctx.Err() != nil {
		return "timeout", out
	}
	if strings.Contains(out, "timeout") || strings.Contains(out, "interrupted") {
		return "timeout", out
	}
	return "error", out
}

var fileSeq int
var fileMu sync.Mutex

func writeScript(script string) string {
	fileMu.Lock()
	fileSeq++
	n := fileSeq
	fileMu.Unlock()
	f := filepath.Join(scratch(), fmt.Sprintf("q%d.smt2", n))
	os.WriteFile(f, []byte(script), 0644)
	return f
}

// solve decides one script. want is the status that settles the query early.
func solve(script string, secs int, thorough bool) *SolveResult {
	file := writeScript(script)
	defer os.Remove(file)
	start := time.Now()
	// stage 1: z3-new alone, short
	s1 := 3
	if secs < s1 {
		s1 = secs
	}
	st, out := runSolver(context.Background(), solvers[0], file, s1)
	res := &SolveResult{Status: st, Solver: "z3-new", Output: out}
	if st != "unsat" && st != "sat" {
		// stage 2: race all
		ctx, cancel := context.WithCancel(context.Background())
		type r struct {
			st, out, name string
		}
		ch := make(chan r, len(solvers))
		for _, sd := range solvers {
			go func(sd solverDef) {
				s, o := runSolver(ctx, sd, file, secs)
				ch <- r{s, o, sd.name}
			}(sd)
		}
		var last r
		for i := 0; i < len(solvers); i++ {
			x := <-ch
			if x.st == "unsat" || x.st == "sat" {
				last = x
				break
			}
			if last.st == "" || last.st == "error" {
				last = x
			}
		}
		cancel()
		res = &SolveResult{Status: last.st, Solver: last.name, Output: last.out}
	}
	if thorough && res.Status == "unsat" {
		// agreement of a second solver where one answers
		for _, sd := range solvers {
			if sd.name == res.Solver || strings.HasPrefix(sd.name, "z3-new") && strings.HasPrefix(res.Solver, "z3-new") {
				continue // the same solver (in another configuration) is not a second opinion
			}
			s, _ := runSolver(context.Background(), sd, file, 10)
			if s == "unsat" {
				res.Second = sd.name
				break
			}
			if s == "sat" {
				res.Status = "unknown"
				res.Output = "solver disagreement: " + res.Solver + "=unsat " + sd.name + "=sat"
				break
			}
		}
	}
	res.Ms = time.Since(start).Milliseconds()
	if len(res.Output) > 4000 {
		res.Output = res.Output[:4000]
	}
	return res
}

// quickSat: satisfiability probe for vacuity guards (only "unsat" matters).
func quickSat(script string, secs int) *SolveResult {
	file := writeScript(script)
	defer os.Remove(file)
	start := time.Now()
	st, out := runSolver(context.Background(), solvers[0], file, secs)
	return &SolveResult{Status: st, Solver: "z3-new", Output: firstLines(out, 5), Ms: time.Since(start).Milliseconds()}
}

func firstLines(s string, n int) string {
	ls := strings.Split(s, "\n")
	if len(ls) > n {
		ls = ls[:n]
	}
	return strings.Join(ls, "\n")
}

// getModel re-runs a sat query with model production and evaluates the given terms.
func getModel(script string, terms []string, solver string, secs int) (map[string]string, string) {
	var sb strings.Builder
	sb.WriteString("(set-option :produce-models true)\n")
	sb.WriteString(script)
	for _, t := range terms {
		sb.WriteString("(get-value (" + t + "))\n")
	}
	file := writeScript(sb.String())
	defer os.Remove(file)
	var sd solverDef = solvers[0]
	for _, s := range solvers {
		if s.name == solver {
			sd = s
		}
	}
	st, out := runSolver(context.Background(), sd, file, secs)
	if st != "sat" {
		return nil, out
	}
	m := map[string]string{}
	rest := strings.SplitN(out, "\n", 2)
	if len(rest) < 2 {
		return m, out
	}
	vals := parseGetValues(rest[1])
	for i, t := range terms {
		if i < len(vals) {
			m[t] = vals[i]
		}
	}
	return m, out
}

// parseGetValues extracts the value part of successive "((term value))" answers.
func parseGetValues(s string) []string {
	var res []string
	i := 0
	for i < len(s) {
		for i < len(s) && s[i] != '(' {
			i++
		}
		if i >= len(s) {
			break
		}
		// find matching paren of the outer "(( ... ))"
		d := 0
		j := i
		for ; j < len(s); j++ {
			if s[j] == '(' {
				d++
			}
			if s[j] == ')' {
				d--
				if d == 0 {
					break
				}
			}
		}
		if j >= len(s) {
			break
		}
		inner := strings.TrimSpace(s[i+1 : j]) // "(term value)"
		inner = strings.TrimSpace(inner[1 : len(inner)-1])
		// split term and value: term is first s-expr
		k := 0
		if inner[0] == '(' {
			d = 0
			for ; k < len(inner); k++ {
				if inner[k] == '(' {
					d++
				}
				if inner[k] == ')' {
					d--
					if d == 0 {
						k++
						break
					}
				}
			}
		} else {
			for k < len(inner) && inner[k] != ' ' && inner[k] != '\n' {
				k++
			}
		}
		res = append(res, strings.TrimSpace(inner[k:]))
		i = j + 1
	}
	return res
}
