package main

import (
	"encoding/json"
	"flag"
	"fmt"
	"os"
	"path/filepath"
	"sort"
	"strings"
	"sync"
	"time"
)

const modPrefix = "github.com/Fantom-foundation/lachesis-base/"

type Claim struct {
	ID          string   `json:"id"`
	Packages    []string `json:"packages"`
	Functions   []string `json:"functions"`
	Lemmas      []string `json:"lemmas"`
	TrustedBase []string `json:"trusted_base"`
	Undecided   []string `json:"undecided"`
	Explanation string   `json:"explanation"`
	Bounded     []BoundedCheck `json:"bounded"`
	MinObligations int   `json:"min_obligations"`
	View        string   `json:"view"` // verify function bodies against their 'viewfunc <view>' contracts where present
}

type BoundedCheck struct {
	Name string `json:"name"`
	Pkg  string `json:"pkg"`  // package dir relative to repo
	File string `json:"file"` // test file under /verif/bounded
	Run  string `json:"run"`
	Bound string `json:"bound"`
}

type KnownFinding struct {
	Property   string `json:"property"`
	Obligation string `json:"obligation"`
	Status     string `json:"status"` // open | fixed
	Commit     string `json:"commit,omitempty"`
	What       string `json:"what"`
}

func main() {
	if len(os.Args) < 2 {
		fmt.Fprintln(os.Stderr, "usage: govc check|dump ...")
		os.Exit(2)
	}
	switch os.Args[1] {
	case "check":
		os.Exit(cmdCheck(os.Args[2:]))
	case "dump":
		os.Exit(cmdDump(os.Args[2:]))
	case "keys":
		cmdKeys("/repo", os.Args[2], os.Args[3])
	case "parse":
		for _, f := range os.Args[2:] {
			cf, err := ParseContractFile(f, "")
			if err != nil {
				fmt.Println(err)
				os.Exit(1)
			}
			fmt.Printf("%s: %d funcs, %d lemmas, %d specs\n", f, len(cf.Funcs), len(cf.Lemmas), len(cf.Specs))
		}
	default:
		fmt.Fprintln(os.Stderr, "unknown command")
		os.Exit(2)
	}
}

func fullKey(short string) string {
	if strings.HasPrefix(short, "std:") {
		return strings.TrimPrefix(short, "std:")
	}
	return modPrefix + short
}

func pkgOfKey(key string) string {
	// "<pkgpath>.<rel>" where rel may start with "(" and contain dots
	if i := strings.Index(key, ".("); i >= 0 {
		return key[:i]
	}
	i := strings.LastIndex(key, "/")
	j := strings.Index(key[i+1:], ".")
	return key[:i+1+j]
}

type funcReport struct {
	Name        string `json:"name"`
	Obligations int    `json:"obligations"`
	Discharged  int    `json:"discharged"`
	Vacuity     int    `json:"vacuity_checks"`
	Error       string `json:"error,omitempty"`
}

func cmdDump(args []string) int {
	fs := flag.NewFlagSet("dump", flag.ExitOnError)
	repo := fs.String("repo", "/repo", "")
	verif := fs.String("verif", "/verif", "")
	pkg := fs.String("pkg", "", "package pattern")
	fn := fs.String("func", "", "function key (short)")
	lemma := fs.String("lemma", "", "")
	ob := fs.String("ob", "", "obligation name substring")
	fs.Parse(args)
	w, err := loadWorld(*repo, strings.Split(*pkg, ","), []string{filepath.Join(*verif, "contracts/trusted"), filepath.Join(*verif, "contracts/lemmas")})
	if err != nil {
		fmt.Println(err)
		return 1
	}
	var vc *VC
	if *lemma != "" {
		lm := w.lemmas[*lemma]
		if lm == nil {
			fmt.Println("no such lemma")
			return 1
		}
		vc, err = w.lemmaVC(lm)
	} else {
		key := fullKey(*fn)
		w.build(pkgOfKey(key))
		f := w.funcIndex()[key]
		if f == nil {
			fmt.Println("no such function", key)
			return 1
		}
		spec := w.funcSpecs[key]
		if spec == nil {
			fmt.Println("no contract for", key)
			return 1
		}
		vc = newVC(w, f, spec)
		err = vc.run()
	}
	if err != nil {
		fmt.Println("ERROR:", err)
	}
	for _, o := range vc.obligations {
		if *ob == "" {
			fmt.Println(o.Name, " -- ", o.Desc)
			continue
		}
		if strings.Contains(o.Name, *ob) {
			fmt.Println("; " + o.Name + " -- " + o.Desc)
			fmt.Println(o.script(false))
		}
	}
	return 0
}

func cmdCheck(args []string) int {
	fs := flag.NewFlagSet("check", flag.ExitOnError)
	repo := fs.String("repo", "/repo", "")
	verif := fs.String("verif", "/verif", "")
	claimPath := fs.String("claim", "", "claims file")
	tier := fs.String("tier", "quick", "")
	verbose := fs.Bool("v", false, "")
	only := fs.String("only", "", "only functions containing this substring")
	fs.Parse(args)
	start := time.Now()
	defer cleanupScratch()
	data, err := os.ReadFile(*claimPath)
	if err != nil {
		fmt.Println(err)
		return 2
	}
	var claim Claim
	if err := json.Unmarshal(data, &claim); err != nil {
		fmt.Println(err)
		return 2
	}
	seed := 0
	fmt.Sscanf(os.Getenv("VERIF_SEED"), "%d", &seed)
	secs := 25
	thorough := *tier == "thorough"
	if thorough {
		secs = 90
	}
	violations := 0
	report := func(ob string, replay string, tail string) {
		violations++
		line := fmt.Sprintf("VIOLATION property=%s replay=%s", claim.ID, replay)
		if tail != "" {
			line += " " + tail
		}
		fmt.Println(line)
	}
	replayDir := filepath.Join(*verif, "replays", claim.ID)
	os.MkdirAll(replayDir, 0755)
	// stale replays from earlier runs are removed
	if ents, err := os.ReadDir(replayDir); err == nil {
		for _, e := range ents {
			os.Remove(filepath.Join(replayDir, e.Name()))
		}
	}

	w, err := loadWorld(*repo, claim.Packages, []string{filepath.Join(*verif, "contracts/trusted"), filepath.Join(*verif, "contracts/lemmas")})
	if err != nil {
		fmt.Println("LOAD ERROR:", err)
		rp := writeReplay(replayDir, claim.ID, "load", map[string]interface{}{"obligation": "load", "error": err.Error()})
		report("load", rp, "no-failing-input-found")
		writeEvidence(*verif, &claim, *tier, seed, nil, nil, nil, time.Since(start), violations, nil, 0)
		return 1
	}
	var known []KnownFinding
	if kd, err := os.ReadFile(filepath.Join(*verif, "known_findings.json")); err == nil {
		json.Unmarshal(kd, &known)
	}

	var allObs []*Obligation
	var reports []*funcReport
	trusted := map[string]bool{}
	var vcs []*VC
	fidx := map[string]bool{}
	for _, short := range claim.Functions {
		w.claimed[fullKey(short)] = true
	}
	// which other claims check which functions (for the evidence: callee contracts relied on across claims)
	w.provedBy = map[string][]string{}
	if others, _ := filepath.Glob(filepath.Join(*verif, "claims", "C*.json")); true {
		sort.Strings(others)
		for _, cf := range others {
			var oc Claim
			if d, err := os.ReadFile(cf); err == nil && json.Unmarshal(d, &oc) == nil && oc.ID != claim.ID {
				for _, short := range oc.Functions {
					w.provedBy[fullKey(short)] = append(w.provedBy[fullKey(short)], oc.ID)
				}
			}
		}
	}
	for _, short := range claim.Functions {
		if *only != "" && !strings.Contains(short, *only) {
			continue
		}
		key := fullKey(short)
		fr := &funcReport{Name: short}
		reports = append(reports, fr)
		w.build(pkgOfKey(key))
		f := w.funcIndex()[key]
		if f == nil {
			fr.Error = "function not found in the current source (contract stale)"
			continue
		}
		spec := w.funcSpecs[key]
		if claim.View != "" {
			if vs := w.funcSpecs["view:"+claim.View+":"+key]; vs != nil {
				spec = vs
			}
		}
		if spec == nil {
			fr.Error = "no contract"
			continue
		}
		if spec.Trusted {
			fr.Error = "contract is marked trusted; cannot be claimed as verified"
			continue
		}
		vc := newVC(w, f, spec)
		if err := vc.run(); err != nil {
			fr.Error = err.Error()
			continue
		}
		fidx[short] = true
		vcs = append(vcs, vc)
		allObs = append(allObs, vc.obligations...)
		for t := range vc.trustedUsed {
			trusted[t] = true
		}
	}
	for _, ln := range claim.Lemmas {
		if *only != "" && !strings.Contains(ln, *only) {
			continue
		}
		fr := &funcReport{Name: "lemma " + ln}
		reports = append(reports, fr)
		lm := w.lemmas[ln]
		if lm == nil {
			fr.Error = "lemma not found"
			continue
		}
		if lm.Trusted {
			trusted["lemma "+ln+" (stated, not machine-proved)"] = true
			continue
		}
		vc, err := w.lemmaVC(lm)
		if err != nil {
			fr.Error = err.Error()
			continue
		}
		vcs = append(vcs, vc)
		allObs = append(allObs, vc.obligations...)
		for t := range vc.trustedUsed {
			trusted[t] = true
		}
	}
	// engine-level failures (outside subset, stale contract) are failed obligations
	for _, fr := range reports {
		if fr.Error != "" {
			name := fr.Name + "#subset"
			fmt.Printf("FAILED %s: %s\n", name, fr.Error)
			rp := writeReplay(replayDir, claim.ID, name, map[string]interface{}{"obligation": name, "error": fr.Error})
			if kf := matchKnown(known, claim.ID, name); kf != nil {
				fmt.Printf("KNOWN-FINDING: property=%s %s\n", claim.ID, kf.What)
				violations--
				violations++
				violations--
				continue
			}
			report(name, rp, "no-failing-input-found")
		}
	}

	// discharge
	type job struct{ o *Obligation }
	jobs := make(chan *Obligation)
	var wg sync.WaitGroup
	nw := 8
	for i := 0; i < nw; i++ {
		wg.Add(1)
		go func() {
			defer wg.Done()
			for o := range jobs {
				if o.expect == "sat" {
					o.Result = quickSat(o.script(false), 3)
				} else {
					o.Result = solve(o.script(false), secs, thorough)
				}
			}
		}()
	}
	for _, o := range allObs {
		jobs <- o
	}
	close(jobs)
	wg.Wait()
	// second chance, one at a time (no contention between obligations) and with twice the time, for obligations that
	// ended without an answer: a machine that is busy with other checks must not turn a proof into an alarm. At most
	// six are retried (more than that is not a load problem); an answer "sat" is never retried.
	retried := 0
	for _, o := range allObs {
		if o.expect == "sat" || o.Result == nil || retried >= 6 {
			continue
		}
		if st := o.Result.Status; st == "timeout" || st == "unknown" || st == "error" {
			retried++
			first := o.Result
			o.Result = solve(o.script(false), 2*secs, thorough)
			o.Result.Ms += first.Ms
			if o.Result.Status == "unsat" {
				fmt.Printf("NOTE %s: no answer within %ds under load, discharged on the uncontended retry (%s, %dms)\n", o.Name, secs, o.Result.Solver, o.Result.Ms)
			}
		}
	}

	nOb, nDis, nVac := 0, 0, 0
	deadReturns := 0
	reachableReturns := map[string]int{}
	reachableBackEdges := map[string]int{}
	for _, o := range allObs {
		if o.Kind == "vacuity.return" && o.Result.Status != "unsat" {
			reachableReturns[o.Func]++
		}
		if o.Kind == "vacuity.backedge" && o.Result.Status != "unsat" {
			reachableBackEdges[o.Group]++
		}
	}
	reportedLoop := map[string]bool{}
	solverTime := int64(0)
	perOb := []map[string]interface{}{}
	var samples []interface{}
	byFunc := map[string]*funcReport{}
	for _, fr := range reports {
		byFunc[fr.Name] = fr
	}
	frOf := func(o *Obligation) *funcReport {
		short := strings.TrimPrefix(o.Func, modPrefix)
		if fr, ok := byFunc[short]; ok {
			return fr
		}
		if strings.HasPrefix(o.Func, "lemma.") {
			return byFunc["lemma "+strings.TrimPrefix(o.Func, "lemma.")]
		}
		return nil
	}
	for _, o := range allObs {
		solverTime += o.Result.Ms
		fr := frOf(o)
		if o.expect == "sat" {
			nVac++
			if fr != nil {
				fr.Vacuity++
			}
			if o.Result.Status == "unsat" && o.Kind == "vacuity.return" && reachableReturns[o.Func] > 0 {
				// dead code in the source (an unreachable return) is not a vacuous proof as long as
				// some return of the function is reachable under the contract assumptions
				deadReturns++
				continue
			}
			if o.Kind == "vacuity.backedge" {
				// one unreachable back edge next to reachable ones is dead code in the source; a loop none of whose back
				// edges is reachable has a vacuous invariant proof (reported once per loop)
				if o.Result.Status != "unsat" || reachableBackEdges[o.Group] > 0 || reportedLoop[o.Group] {
					continue
				}
				reportedLoop[o.Group] = true
			}
			if o.Result.Status == "unsat" {
				fmt.Printf("FAILED %s: assumptions are contradictory (vacuous proof)\n", o.Name)
				rp := writeReplay(replayDir, claim.ID, o.Name, map[string]interface{}{"obligation": o.Name, "desc": o.Desc, "solver": o.Result, "script": o.script(false)})
				report(o.Name, rp, "no-failing-input-found")
			}
			continue
		}
		nOb++
		if fr != nil {
			fr.Obligations++
		}
		perOb = append(perOb, map[string]interface{}{"name": strings.TrimPrefix(o.Name, modPrefix), "solver": o.Result.Solver, "ms": o.Result.Ms, "status": o.Result.Status, "second": o.Result.Second})
		if o.Result.Status == "unsat" {
			nDis++
			if fr != nil {
				fr.Discharged++
			}
			if len(samples) < 3 && (o.Kind == "ensures" || o.Kind == "lemma") {
				samples = append(samples, map[string]string{"obligation": strings.TrimPrefix(o.Name, modPrefix), "clause": o.Desc, "goal": truncate(o.goal, 600)})
			}
			if *verbose {
				fmt.Printf("ok     %s (%s %dms)\n", o.Name, o.Result.Solver, o.Result.Ms)
			}
			continue
		}
		short := strings.TrimPrefix(o.Name, modPrefix)
		fmt.Printf("FAILED %s [%s by %s, %dms]: %s\n", short, o.Result.Status, o.Result.Solver, o.Result.Ms, o.Desc)
		rep := map[string]interface{}{"obligation": short, "clause": o.Desc, "kind": o.Kind, "solver_status": o.Result.Status,
			"solver": o.Result.Solver, "solver_output": o.Result.Output, "script": o.script(false)}
		tail := "no-failing-input-found"
		if o.Result.Status == "sat" {
			if rr := tryReplay(w, o, *repo, replayDir); rr != nil {
				for k, v := range rr.fields {
					rep[k] = v
				}
				if rr.confirmed {
					tail = ""
				}
			}
		}
		rp := writeReplay(replayDir, claim.ID, short, rep)
		if kf := matchKnown(known, claim.ID, short); kf != nil {
			fmt.Printf("KNOWN-FINDING: property=%s %s\n", claim.ID, kf.What)
			continue
		}
		report(short, rp, tail)
	}
	if claim.MinObligations > 0 && nOb < claim.MinObligations && *only == "" {
		name := "obligation-count"
		fmt.Printf("FAILED %s: %d obligations generated, expected at least %d (contracts stopped applying)\n", name, nOb, claim.MinObligations)
		rp := writeReplay(replayDir, claim.ID, name, map[string]interface{}{"obligation": name, "generated": nOb, "expected_min": claim.MinObligations})
		report(name, rp, "no-failing-input-found")
	}
	if nOb == 0 && *only == "" {
		fmt.Println("FAILED: zero obligations generated")
		rp := writeReplay(replayDir, claim.ID, "zero-obligations", map[string]interface{}{"obligation": "zero-obligations"})
		report("zero", rp, "no-failing-input-found")
	}
	// bounded stand-ins
	var boundedRes []map[string]interface{}
	for _, bc := range claim.Bounded {
		if *only != "" {
			continue
		}
		res := runBounded(*repo, *verif, bc, thorough, seed)
		boundedRes = append(boundedRes, res)
		if res["status"] != "pass" {
			fmt.Printf("FAILED bounded %s: %v\n", bc.Name, res["output"])
			rp := writeReplay(replayDir, claim.ID, "bounded."+bc.Name, res)
			if kf := matchKnown(known, claim.ID, "bounded."+bc.Name); kf != nil {
				fmt.Printf("KNOWN-FINDING: property=%s %s\n", claim.ID, kf.What)
				continue
			}
			report("bounded."+bc.Name, rp, "")
		}
	}
	var tl []string
	for t := range trusted {
		tl = append(tl, t)
	}
	sort.Strings(tl)
	writeEvidence(*verif, &claim, *tier, seed, reports, perOb, samples, time.Since(start), violations, map[string]interface{}{
		"obligations": nOb, "discharged": nDis, "vacuity_checks": nVac, "solver_time_s": float64(solverTime) / 1000.0,
		"trusted_used": tl, "bounded_checks": boundedRes, "unreachable_returns_in_source": deadReturns,
	}, nDis)
	fmt.Printf("%s %s: %d/%d obligations discharged, %d vacuity guards, %d functions+lemmas, %.1fs\n", claim.ID, *tier, nDis, nOb, nVac, len(reports), time.Since(start).Seconds())
	if violations > 0 {
		return 1
	}
	return 0
}

func truncate(s string, n int) string {
	if len(s) > n {
		return s[:n] + "…"
	}
	return s
}

func matchKnown(known []KnownFinding, prop, ob string) *KnownFinding {
	for i := range known {
		k := &known[i]
		if k.Property == prop && k.Status == "open" && k.Obligation == ob {
			return k
		}
	}
	return nil
}

func writeReplay(dir, prop, ob string, content map[string]interface{}) string {
	name := sanitize(ob)
	if len(name) > 150 {
		name = name[len(name)-150:]
	}
	p := filepath.Join(dir, name+".json")
	content["property"] = prop
	b, _ := json.MarshalIndent(content, "", " ")
	os.WriteFile(p, b, 0644)
	return p
}

func writeEvidence(verif string, claim *Claim, tier string, seed int, reports []*funcReport, perOb []map[string]interface{}, samples []interface{},
	wall time.Duration, violations int, extra map[string]interface{}, discharged int) {
	cov := map[string]interface{}{}
	for k, v := range extra {
		cov[k] = v
	}
	if _, ok := cov["obligations"]; !ok {
		cov["obligations"] = 0
		cov["discharged"] = 0
	}
	cov["checker_cmd"] = fmt.Sprintf("/verif/bin/govc check --claim /verif/claims/%s.json --tier %s  (VC generation over go/ssa; solvers z3-new 5.1.0, z3 4.8.12, cvc5 1.0 raced per obligation)", claim.ID, tier)
	tb := append([]string{}, claim.TrustedBase...)
	if tu, ok := extra["trusted_used"].([]string); ok {
		tb = append(tb, tu...)
	}
	tb = append(tb, "go/packages + go/ssa (x/tools v0.29.0) produce SSA faithful to the Go semantics",
		"this VC generator's encoding of go/ssa into SMT-LIB (checked by the must-fail corpus)",
		"SMT solver soundness", "sequential execution (no preemption); partial correctness (termination not proved)")
	cov["trusted_base"] = tb
	cov["functions_under_contract"] = reports
	cov["per_obligation"] = perOb
	if len(samples) == 0 {
		samples = []interface{}{"(no obligation discharged)"}
	}
	cov["samples"] = samples
	cov["undecided_clauses"] = claim.Undecided
	cov["explanation"] = claim.Explanation
	// generic fallback keys (kept consistent with measured counts)
	ev := map[string]interface{}{
		"property_id": claim.ID, "tier": tier, "seed": seed, "level": "proof", "coverage": cov,
		"assumptions": tb, "wall_s": wall.Seconds(), "violations": violations,
	}
	b, _ := json.MarshalIndent(ev, "", " ")
	os.MkdirAll(filepath.Join(verif, "evidence"), 0755)
	os.WriteFile(filepath.Join(verif, "evidence", claim.ID+".json"), b, 0644)
}
