package main

// VC generation for one function: symbolic execution of go/ssa into SMT-LIB.

import (
	"os"
	"runtime/debug"
	"fmt"
	"go/constant"
	"go/token"
	"go/types"
	"math/big"
	"regexp"
	"sort"
	"strings"

	"golang.org/x/tools/go/ssa"
)

type State struct {
	heaps map[string]string
	alloc string
}

func (s *State) clone() *State {
	n := &State{heaps: make(map[string]string, len(s.heaps)), alloc: s.alloc}
	for k, v := range s.heaps {
		n.heaps[k] = v
	}
	return n
}

type Obligation struct {
	Name    string
	Kind    string
	Desc    string
	Func    string
	Group   string // vacuity.backedge: the loop the guard belongs to
	block   *ssa.BasicBlock // block of the verified function in which the obligation arises (nil: unknown)
	nlines  int
	reach   string
	goal    string
	vc      *VC
	expect  string // "unsat" (default) or "sat" (vacuity guards)
	extra   []string
	Result  *SolveResult
	linesOv []string
	retInstr *ssa.Return
	st      *State
}

type unsupported struct{ msg string }

func (vc *VC) fail(format string, args ...interface{}) {
	panic(unsupported{fmt.Sprintf(format, args...)})
}

const (
	lField = iota
	lElem
	lCell
	lStruct
	lGlobal
)

type pathElem struct {
	field   int
	structT types.Type
	index   string
	isIndex bool
	arrT    *types.Array
}

type Loc struct {
	kind  int
	heap  string
	hsort string
	key   string
	idx   string
	path  []pathElem
	typ   types.Type // type of the content at the end of the path
	rootT types.Type // type of the root content
}

type loopInfo struct {
	header  *ssa.BasicBlock
	blocks  map[*ssa.BasicBlock]bool
	ordinal int
	latches []*ssa.BasicBlock
	// real-pass data
	entryAlloc string
	frameKeys  map[string][]string // heap -> keys that may be written
	wholeHeap  map[string]bool
	hdrState   *State
	kTerm      string // _k at header (after havoc)
	mapIter    *ssa.Range
	entryPhis  map[*ssa.Phi]string
	hdrPhis    map[*ssa.Phi]string
	entryState *State
}

type VC struct {
	w     *World
	fn    *ssa.Function
	spec  *FuncSpec
	d     *Decls
	lines []string
	nfresh int

	vals   map[ssa.Value]string
	tuples map[ssa.Value][]string
	locs   map[ssa.Value]*Loc
	clos   map[ssa.Value]*closureInfo

	reach     map[*ssa.BasicBlock]string
	exitState map[*ssa.BasicBlock]*State
	edgeCond  map[[2]*ssa.BasicBlock]string
	entry     *State
	heapSorts map[string]string

	obligations []*Obligation
	counters    map[string]int
	loops       []*loopInfo
	loopOf      map[*ssa.BasicBlock]*loopInfo // header -> loop
	active      []*loopInfo
	writeLog    map[string]bool
	discovery   bool
	phiOverride map[*ssa.Phi]string
	callCount   map[string]int
	defers      []*ssa.Defer
	deferReach  map[*ssa.Defer]string
	lkRelInit   bool
	guardOf     map[ssa.Value]string // address of a guarded field -> address of its mutex
	mainBlock   *ssa.BasicBlock // the block of vc.fn being executed (also while a callee is executed in place)
	closArgs    []*closureInfo // closures passed as arguments of the call being executed (see applySpec)
	curBlock    *ssa.BasicBlock
	curState    *State
	results     []string // at return being processed
	mapIterState map[*ssa.Range]*mapIter
	trustedUsed map[string]bool
	notes       []string
	funcName    string
	curClause   string
	recHeaps    map[string]string // when non-nil: records the heaps read (name -> sort)
	sliceBack   map[string]*Loc // array-backed slices: arr term -> backing location
	inl         *inlineFrame    // non-nil while the body of a contract-less callee is executed in place
	inlDepth    int
	atUsed      map[*AtCall]bool
	callRes     map[string][]SVal // results of the calls executed so far, by "k:callee"
	callResBlock map[string]*ssa.BasicBlock
}

type mapIter struct {
	m       string
	mt      *types.Map
	visited string // current visited-set term
	count   string
	prevVisited, prevCount, lastKey string
}

type closureInfo struct {
	fn       *ssa.Function
	bindings []ssa.Value
	terms    []string
}

func newVC(w *World, fn *ssa.Function, spec *FuncSpec) *VC {
	vc := &VC{w: w, fn: fn, spec: spec, d: newDecls(), vals: map[ssa.Value]string{}, tuples: map[ssa.Value][]string{},
		locs: map[ssa.Value]*Loc{}, clos: map[ssa.Value]*closureInfo{}, reach: map[*ssa.BasicBlock]string{},
		exitState: map[*ssa.BasicBlock]*State{}, edgeCond: map[[2]*ssa.BasicBlock]string{}, heapSorts: map[string]string{},
		counters: map[string]int{}, loopOf: map[*ssa.BasicBlock]*loopInfo{}, phiOverride: map[*ssa.Phi]string{},
		callCount: map[string]int{}, deferReach: map[*ssa.Defer]string{}, mapIterState: map[*ssa.Range]*mapIter{},
		trustedUsed: map[string]bool{}, sliceBack: map[string]*Loc{}}
	if fn != nil {
		vc.funcName = funcKey(fn)
	}
	return vc
}

// ---------- emission helpers ----------

func (vc *VC) emit(s string) { vc.lines = append(vc.lines, s) }

func (vc *VC) freshName(prefix string) string {
	vc.nfresh++
	return fmt.Sprintf("%s!%d", sanitize(prefix), vc.nfresh)
}

func (vc *VC) fresh(prefix, sort string) string {
	n := vc.freshName(prefix)
	vc.emit(fmt.Sprintf("(declare-const %s %s)", n, sort))
	return n
}

func (vc *VC) define(prefix, sort, term string) string {
	n := vc.freshName(prefix)
	if sort == "Slice" || strings.HasPrefix(sort, "(Array") || strings.Contains(term, "(ite ") {
		// named by equation rather than by macro, so that the name can occur in quantifier patterns
		// (solvers expand define-fun before matching and reject if-then-else inside patterns)
		vc.emit(fmt.Sprintf("(declare-const %s %s)", n, sort))
		vc.emit(fmt.Sprintf("(assert (= %s %s))", n, term))
		return n
	}
	vc.emit(fmt.Sprintf("(define-fun %s () %s %s)", n, sort, term))
	return n
}

func (vc *VC) assume(f string) {
	if f == "" || f == "true" {
		return
	}
	vc.emit("(assert " + f + ")")
}

func (vc *VC) assumeIf(cond, f string) {
	if f == "" || f == "true" {
		return
	}
	if cond == "true" || cond == "" {
		vc.assume(f)
		return
	}
	vc.assume("(=> " + cond + " " + f + ")")
}

func (vc *VC) oblige(kind, label, reach, goal, desc string) *Obligation {
	key := kind
	vc.counters[key]++
	name := fmt.Sprintf("%s#%s[%d]", vc.funcName, kind, vc.counters[key]-1)
	if label != "" {
		name = fmt.Sprintf("%s#%s[%s]", vc.funcName, kind, label)
		if vc.counters[kind+"/"+label] > 0 {
			name = fmt.Sprintf("%s#%s[%s.%d]", vc.funcName, kind, label, vc.counters[kind+"/"+label])
		}
		vc.counters[kind+"/"+label]++
	}
	if reach == "" && os.Getenv("GOVC_DEBUG") != "" && !vc.discovery {
		fmt.Fprintf(os.Stderr, "DEBUG empty reach: %s block=%v inl=%v\n%s\n", name, vc.curBlock, vc.inl != nil, debug.Stack())
	}
	o := &Obligation{Name: name, Kind: kind, Desc: desc, Func: vc.funcName, nlines: len(vc.lines), reach: reach, goal: goal, vc: vc, expect: "unsat"}
	if vc.curBlock != nil && vc.fn != nil && vc.curBlock.Parent() == vc.fn {
		o.block = vc.curBlock
	} else {
		o.block = vc.mainBlock
	}
	if !vc.discovery {
		vc.obligations = append(vc.obligations, o)
	}
	return o
}

func (o *Obligation) script(withModel bool) string {
	var sb strings.Builder
	if withModel {
		sb.WriteString("(set-option :produce-models true)\n")
	}
	sb.WriteString("(set-logic ALL)\n")
	sb.WriteString(o.vc.d.text())
	lines := o.vc.lines[:o.nlines]
	if o.linesOv != nil {
		lines = o.linesOv
	}
	// relevance filter: an assumption guarded by the reachability of a block from which the obligation's block cannot be
	// reached says nothing about this obligation (blocks are executed in an order in which, e.g., the code after a loop
	// comes before the loop's back edge); dropping assumptions can only make a proof harder, never unsound
	var irrelevant []string
	if o.block != nil && o.vc.fn != nil && o.block.Parent() == o.vc.fn {
		for b, name := range o.vc.reach {
			if b.Parent() == o.vc.fn && b != o.block && name != "" && name != "true" && strings.HasPrefix(name, "reach.") && !blockReaches(b, o.block) {
				irrelevant = append(irrelevant, "(assert (=> "+name+" ")
			}
		}
	}
	for _, l := range lines {
		skip := false
		if len(irrelevant) > 0 && strings.HasPrefix(l, "(assert (=> reach.") {
			for _, pre := range irrelevant {
				if strings.HasPrefix(l, pre) {
					skip = true
					break
				}
			}
		}
		if skip {
			continue
		}
		sb.WriteString(l)
		sb.WriteString("\n")
	}
	for _, l := range o.extra {
		sb.WriteString(l)
		sb.WriteString("\n")
	}
	if o.reach != "" && o.reach != "true" {
		sb.WriteString("(assert " + o.reach + ")\n")
	}
	if o.expect == "sat" {
		if o.goal != "" && o.goal != "true" {
			sb.WriteString("(assert " + o.goal + ")\n")
		}
	} else {
		sb.WriteString("(assert (not " + o.goal + "))\n")
	}
	sb.WriteString("(check-sat)\n")
	return sb.String()
}

// ---------- heaps ----------

func (vc *VC) heap(st *State, name, sort string) string {
	if vc.recHeaps != nil {
		vc.recHeaps[name] = sort
	}
	if t, ok := st.heaps[name]; ok {
		return t
	}
	init := name + "!0"
	if _, ok := vc.heapSorts[name]; !ok {
		vc.heapSorts[name] = sort
		vc.d.declFun(init, fmt.Sprintf("(declare-const %s %s)", init, sort))
		if strings.HasPrefix(name, "MD.") {
			// nil map is empty
			vc.d.axioms = append(vc.d.axioms, fmt.Sprintf("(assert (= (select %s 0) ((as const %s) false)))", init, innerSort(sort)))
		}
		if strings.HasPrefix(name, "ML.") {
			vc.d.axioms = append(vc.d.axioms, fmt.Sprintf("(assert (= (select %s 0) 0))", init))
		}
	}
	return init
}

func innerSort(arraySort string) string {
	// "(Array K X)" -> X   (K may itself be a parenthesised sort)
	s := strings.TrimPrefix(arraySort, "(Array ")
	s = strings.TrimSuffix(s, ")")
	depth := 0
	for i := 0; i < len(s); i++ {
		switch s[i] {
		case '(':
			depth++
		case ')':
			depth--
		case ' ':
			if depth == 0 {
				return s[i+1:]
			}
		}
	}
	return s
}

func (vc *VC) setHeap(st *State, name, sort, term string) {
	vc.heap(st, name, sort) // ensure declared
	n := vc.define(name, sort, term)
	st.heaps[name] = n
	if vc.writeLog != nil {
		vc.writeLog[name] = true
	}
	// read-over-write facts stated explicitly (they are consequences of the definition; stating them puts the
	// terms into the solver's term graph so that quantifier patterns over the new heap match)
	if parts := splitTop(term); len(parts) == 4 && parts[0] == "store" {
		k, v := parts[2], parts[3]
		if inner := splitTop(v); len(inner) == 4 && inner[0] == "store" && inner[1] == fmt.Sprintf("(select %s %s)", parts[1], k) {
			vc.emit(fmt.Sprintf("(assert (= (select (select %s %s) %s) %s))", n, k, inner[2], inner[3]))
		} else {
			vc.emit(fmt.Sprintf("(assert (= (select %s %s) %s))", n, k, v))
			if strings.HasPrefix(name, "GH.") && strings.HasPrefix(sort, "(Array ") {
				// ghost arrays are mostly read under quantifiers: state the frame of the update as a triggered
				// fact so that instances over the new array produce the corresponding terms over the old one
				ks := arrayKeySort(sort)
				vc.emit(fmt.Sprintf("(assert (forall ((k!u %s)) (! (=> (not (= k!u %s)) (= (select %s k!u) (select %s k!u))) :pattern ((select %s k!u)))))", ks, k, n, parts[1], n))
			}
		}
	}
}

// splitTop splits "(f a b c)" into [f a b c] at the top level (nil if s is not a parenthesised application).
func splitTop(s string) []string {
	s = strings.TrimSpace(s)
	if len(s) < 2 || s[0] != '(' || s[len(s)-1] != ')' {
		return nil
	}
	s = s[1 : len(s)-1]
	var parts []string
	depth, start := 0, -1
	for i := 0; i < len(s); i++ {
		c := s[i]
		switch {
		case c == '(':
			if depth == 0 && start < 0 {
				start = i
			}
			depth++
		case c == ')':
			depth--
			if depth == 0 {
				parts = append(parts, s[start:i+1])
				start = -1
			}
		case c == ' ' || c == '\n' || c == '\t':
			if depth == 0 && start >= 0 {
				parts = append(parts, s[start:i])
				start = -1
			}
		default:
			if depth == 0 && start < 0 {
				start = i
			}
		}
	}
	if start >= 0 {
		parts = append(parts, s[start:])
	}
	return parts
}

func (vc *VC) bumpAlloc(st *State) string {
	r := vc.define("ref", "Int", st.alloc)
	st.alloc = "(+ " + r + " 1)"
	if vc.writeLog != nil {
		vc.writeLog["$alloc"] = true
	}
	vc.assume(fmt.Sprintf("(and (= (base %s) %s) (= (kind %s) 0))", r, r, r))
	return r
}

// ---------- locations ----------

func (vc *VC) embTerm(structT types.Type, i int, ref string) string {
	n := vc.d.embName(structT, i)
	t := "(" + n + " " + ref + ")"
	// ground instances of injectivity / provenance
	vc.assume(fmt.Sprintf("(and (= (own.%s %s) %s) (= (kind %s) %d) (= (base %s) (base %s)) (=> (> %s 0) (> %s 0)))",
		n, t, ref, t, vc.d.embKinds[n], t, ref, ref, t))
	return t
}

func (vc *VC) structLoc(ref string, t types.Type) *Loc {
	return &Loc{kind: lStruct, key: ref, typ: t, rootT: t}
}

func (vc *VC) locOfPointer(v ssa.Value) *Loc {
	if l, ok := vc.locs[v]; ok {
		return l
	}
	p := vc.val(v)
	pt, ok := v.Type().Underlying().(*types.Pointer)
	if !ok {
		vc.fail("locOfPointer: not a pointer: %s", v.Type())
	}
	return vc.locOfRef(p, pt.Elem())
}

func (vc *VC) locOfRef(p string, T types.Type) *Loc {
	if _, ok := isStruct(T); ok {
		return vc.structLoc(p, T)
	}
	if a, ok := T.Underlying().(*types.Array); ok {
		hn, hs := vc.d.elemHeap(a.Elem())
		return &Loc{kind: lCell, heap: hn, hsort: hs, key: p, typ: T, rootT: T}
	}
	hn, hs := vc.d.cellHeap(T)
	return &Loc{kind: lCell, heap: hn, hsort: hs, key: p, typ: T, rootT: T}
}

func (vc *VC) fieldLoc(base *Loc, i int) *Loc {
	st, _ := isStruct(base.typ)
	ft := st.Field(i).Type()
	if base.kind == lStruct {
		if _, ok := isStruct(ft); ok {
			return vc.structLoc(vc.embTerm(base.typ, i, base.key), ft)
		}
		if a, ok := ft.Underlying().(*types.Array); ok {
			// array-typed fields live in the element heap at the (injective) address of the field,
			// so that &x.f, x.f[i] and x.f[lo:hi] all denote the same storage
			hn, hs := vc.d.elemHeap(a.Elem())
			return &Loc{kind: lCell, heap: hn, hsort: hs, key: vc.embTerm(base.typ, i, base.key), typ: ft, rootT: ft}
		}
		hn, hs := vc.d.fieldHeap(base.typ, i)
		return &Loc{kind: lField, heap: hn, hsort: hs, key: base.key, typ: ft, rootT: ft}
	}
	nl := *base
	nl.path = append(append([]pathElem{}, base.path...), pathElem{field: i, structT: base.typ})
	nl.typ = ft
	return &nl
}

func (vc *VC) indexLoc(base *Loc, idx string) *Loc {
	a := base.typ.Underlying().(*types.Array)
	nl := *base
	nl.path = append(append([]pathElem{}, base.path...), pathElem{isIndex: true, index: idx, arrT: a})
	nl.typ = a.Elem()
	return &nl
}

func (vc *VC) loadRoot(st *State, l *Loc) string {
	switch l.kind {
	case lField, lCell:
		return fmt.Sprintf("(select %s %s)", vc.heap(st, l.heap, l.hsort), l.key)
	case lElem:
		return fmt.Sprintf("(select (select %s %s) %s)", vc.heap(st, l.heap, l.hsort), l.key, l.idx)
	case lGlobal:
		return vc.heap(st, l.heap, l.hsort)
	case lStruct:
		return vc.loadStruct(st, l.key, l.rootT)
	}
	panic("loadRoot")
}

func (vc *VC) load(st *State, l *Loc) string {
	t := vc.loadRoot(st, l)
	for _, pe := range l.path {
		if pe.isIndex {
			t = fmt.Sprintf("(select %s %s)", t, pe.index)
		} else {
			t = fmt.Sprintf("(%s %s)", vc.d.accessor(pe.structT, pe.field), t)
		}
	}
	return t
}

func (vc *VC) loadStruct(st *State, ref string, T types.Type) string {
	s, _ := isStruct(T)
	var fs []string
	for i := 0; i < s.NumFields(); i++ {
		ft := s.Field(i).Type()
		if _, ok := isStruct(ft); ok {
			fs = append(fs, vc.loadStruct(st, vc.embTerm(T, i, ref), ft))
		} else if a, ok := ft.Underlying().(*types.Array); ok {
			hn, hs := vc.d.elemHeap(a.Elem())
			fs = append(fs, fmt.Sprintf("(select %s %s)", vc.heap(st, hn, hs), vc.embTerm(T, i, ref)))
		} else {
			hn, hs := vc.d.fieldHeap(T, i)
			fs = append(fs, fmt.Sprintf("(select %s %s)", vc.heap(st, hn, hs), ref))
		}
	}
	return vc.d.mkStruct(T, fs)
}

func (vc *VC) storeStruct(st *State, ref string, T types.Type, v string) {
	s, _ := isStruct(T)
	for i := 0; i < s.NumFields(); i++ {
		ft := s.Field(i).Type()
		fv := fmt.Sprintf("(%s %s)", vc.d.accessor(T, i), v)
		if _, ok := isStruct(ft); ok {
			vc.storeStruct(st, vc.embTerm(T, i, ref), ft, fv)
		} else if a, ok := ft.Underlying().(*types.Array); ok {
			hn, hs := vc.d.elemHeap(a.Elem())
			k := vc.embTerm(T, i, ref)
			vc.noteWrite(st, hn, k)
			vc.setHeap(st, hn, hs, fmt.Sprintf("(store %s %s %s)", vc.heap(st, hn, hs), k, fv))
		} else {
			hn, hs := vc.d.fieldHeap(T, i)
			vc.noteWrite(st, hn, ref)
			vc.setHeap(st, hn, hs, fmt.Sprintf("(store %s %s %s)", vc.heap(st, hn, hs), ref, fv))
		}
	}
}

// updPath returns the root value updated at path with v.
func (vc *VC) updPath(root string, path []pathElem, v string) string {
	if len(path) == 0 {
		return v
	}
	pe := path[0]
	if pe.isIndex {
		inner := vc.updPath(fmt.Sprintf("(select %s %s)", root, pe.index), path[1:], v)
		return fmt.Sprintf("(store %s %s %s)", root, pe.index, inner)
	}
	s, _ := isStruct(pe.structT)
	var fs []string
	for i := 0; i < s.NumFields(); i++ {
		cur := fmt.Sprintf("(%s %s)", vc.d.accessor(pe.structT, i), root)
		if i == pe.field {
			fs = append(fs, vc.updPath(cur, path[1:], v))
		} else {
			fs = append(fs, cur)
		}
	}
	return vc.d.mkStruct(pe.structT, fs)
}

func (vc *VC) store(st *State, l *Loc, v string) {
	if l.kind == lStruct {
		vc.storeStruct(st, l.key, l.rootT, v)
		return
	}
	nv := v
	if len(l.path) > 0 {
		root := vc.define("root", vc.d.sortOf(l.rootT), vc.loadRoot(st, l))
		nv = vc.updPath(root, l.path, v)
	}
	h := vc.heap(st, l.heap, l.hsort)
	switch l.kind {
	case lField, lCell:
		vc.noteWrite(st, l.heap, l.key)
		vc.setHeap(st, l.heap, l.hsort, fmt.Sprintf("(store %s %s %s)", h, l.key, nv))
	case lElem:
		vc.noteWrite(st, l.heap, l.key)
		vc.setHeap(st, l.heap, l.hsort, fmt.Sprintf("(store %s %s (store (select %s %s) %s %s))", h, l.key, h, l.key, l.idx, nv))
	case lGlobal:
		vc.setHeap(st, l.heap, l.hsort, nv)
	}
	// array-backed slices: keep the backing location in sync
	if l.kind == lElem || l.kind == lCell {
		if bl, ok := vc.sliceBack[l.key]; ok && l.heap != "" && strings.HasPrefix(l.heap, "E.") {
			vc.store(st, bl, fmt.Sprintf("(select %s %s)", vc.heap(st, l.heap, l.hsort), l.key))
		}
	}
}

var bangNum = regexp.MustCompile(`![0-9]+`)

// noteWrite: inside loops, check that the written key is covered by the loop frame.
func (vc *VC) noteWrite(st *State, heap, key string) {
	if vc.discovery {
		if hookKeys != nil {
			hookKeys(heap, key)
		}
		return
	}
	for _, lp := range vc.active {
		if lp.wholeHeap[heap] {
			continue
		}
		keys := lp.frameKeys[heap]
		trivial := false
		for _, k := range keys {
			if k == key {
				trivial = true
			}
		}
		if trivial {
			continue
		}
		var alts []string
		for _, k := range keys {
			alts = append(alts, fmt.Sprintf("(= %s %s)", key, k))
		}
		if !strings.HasPrefix(heap, "GH.") {
			alts = append(alts, fmt.Sprintf("(>= (base %s) %s)", key, lp.entryAlloc))
		}
		if len(alts) == 0 {
			alts = append(alts, "false")
		}
		goal := "(or " + strings.Join(alts, " ") + ")"
		vc.oblige(fmt.Sprintf("loop%d.modifies", lp.ordinal), "", vc.reach[vc.curBlock], goal,
			fmt.Sprintf("write to %s inside loop %d stays within the loop frame", heap, lp.ordinal))
	}
}

// ---------- integer helpers ----------

func wrapTerm(t string, typ types.Type) string {
	r, ok := rangeOf(typ)
	if !ok {
		return t
	}
	m := pow2(r.bits)
	if !r.signed {
		return fmt.Sprintf("(mod %s %s)", t, m)
	}
	h := pow2(r.bits - 1)
	return fmt.Sprintf("(- (mod (+ %s %s) %s) %s)", t, h, m, h)
}

// wrapAddSub: cheaper wrap for results known to be within one period of the range.
func wrapNear(t string, typ types.Type) string {
	r, ok := rangeOf(typ)
	if !ok {
		return t
	}
	m := pow2(r.bits)
	return fmt.Sprintf("(let ((x!w %s)) (ite (> x!w %s) (- x!w %s) (ite (< x!w %s) (+ x!w %s) x!w)))", t, smtInt(r.hi), m, smtInt(r.lo), m)
}

func tdiv(a, b string) string {
	return fmt.Sprintf("(let ((a!d %s) (b!d %s)) (ite (>= a!d 0) (ite (> b!d 0) (div a!d b!d) (- (div a!d (- b!d)))) (ite (> b!d 0) (- (div (- a!d) b!d)) (div (- a!d) (- b!d)))))", a, b)
}

func trem(a, b string) string {
	return fmt.Sprintf("(let ((a!r %s) (b!r %s)) (- a!r (* b!r %s)))", a, b, tdiv("a!r", "b!r"))
}

func constIntTerm(c *ssa.Const) (string, bool) {
	if c.Value == nil {
		return "", false
	}
	if c.Value.Kind() == constant.Int {
		v, _ := new(big.Int).SetString(c.Value.ExactString(), 10)
		if v == nil {
			return "", false
		}
		return smtInt(v), true
	}
	return "", false
}

func (vc *VC) constTerm(c *ssa.Const) string {
	t := c.Type()
	if c.Value == nil {
		return vc.d.zero(t)
	}
	switch c.Value.Kind() {
	case constant.Bool:
		if constant.BoolVal(c.Value) {
			return "true"
		}
		return "false"
	case constant.Int:
		if b, ok := t.Underlying().(*types.Basic); ok && b.Info()&types.IsFloat != 0 {
			return c.Value.ExactString() + ".0"
		}
		s, _ := constIntTerm(c)
		return s
	case constant.String:
		return vc.d.strConst(constant.StringVal(c.Value))
	case constant.Float:
		f, _ := constant.Float64Val(c.Value)
		return fmt.Sprintf("%f", f)
	}
	vc.fail("unsupported constant %s", c)
	return ""
}

// ---------- values ----------

func (vc *VC) val(v ssa.Value) string {
	switch x := v.(type) {
	case *ssa.Const:
		return vc.constTerm(x)
	case *ssa.Global:
		// address of a global: only struct-typed globals have a stable reference
		n := "gref." + sanitize(x.Pkg.Pkg.Path()+"."+x.Name())
		vc.d.declFun(n, fmt.Sprintf("(declare-const %s Int)", n))
		return n
	case *ssa.Function:
		n := "fn." + sanitize(funcKey(x))
		vc.d.declFun(n, fmt.Sprintf("(declare-const %s Int)", n))
		return n
	case *ssa.Builtin:
		vc.fail("builtin as value")
	}
	if t, ok := vc.vals[v]; ok {
		return t
	}
	if ph, ok := v.(*ssa.Phi); ok {
		if t, ok := vc.phiOverride[ph]; ok {
			return t
		}
	}
	if _, ok := vc.locs[v]; ok {
		l := vc.locs[v]
		if l.kind == lStruct || (l.kind == lCell && len(l.path) == 0) {
			return l.key
		}
		vc.fail("interior pointer %s (%s) escapes", v.Name(), v.Type())
	}
	vc.fail("value %s has no term (in %s)", v.Name(), vc.fn.Name())
	return ""
}

func (vc *VC) setVal(v ssa.Value, term string) {
	srt := vc.d.sortOf(v.Type())
	vc.vals[v] = vc.define(v.Name(), srt, term)
}

// assumeRange asserts the type-range facts of a freshly introduced value.
func (vc *VC) assumeRange(t string, typ types.Type, st *State, cond string) {
	alloc := ""
	if st != nil {
		alloc = st.alloc
	}
	f := vc.d.rangeAssume(t, typ, alloc, 0)
	vc.assumeIf(cond, f)
}

// ---------- CFG analysis ----------

func (vc *VC) analyzeLoops() []*ssa.BasicBlock {
	fn := vc.fn
	// back edges
	type edge struct{ from, to *ssa.BasicBlock }
	var backs []edge
	for _, b := range fn.Blocks {
		for _, s := range b.Succs {
			if s.Dominates(b) {
				backs = append(backs, edge{b, s})
			}
		}
	}
	hdrs := map[*ssa.BasicBlock]*loopInfo{}
	for _, e := range backs {
		lp := hdrs[e.to]
		if lp == nil {
			lp = &loopInfo{header: e.to, blocks: map[*ssa.BasicBlock]bool{e.to: true}}
			hdrs[e.to] = lp
		}
		lp.latches = append(lp.latches, e.from)
		// natural loop
		stack := []*ssa.BasicBlock{e.from}
		for len(stack) > 0 {
			n := stack[len(stack)-1]
			stack = stack[:len(stack)-1]
			if lp.blocks[n] {
				continue
			}
			lp.blocks[n] = true
			for _, p := range n.Preds {
				stack = append(stack, p)
			}
		}
	}
	// ordinals in source order of the header (by position of the first instruction with a position, else index)
	var hs []*ssa.BasicBlock
	for h := range hdrs {
		hs = append(hs, h)
	}
	posOf := func(b *ssa.BasicBlock) token.Pos {
		best := token.NoPos
		for blk := range hdrs[b].blocks {
			for _, in := range blk.Instrs {
				if _, isPhi := in.(*ssa.Phi); isPhi {
					continue // a phi's position is the variable's declaration, possibly before the loop
				}
				if _, isDbg := in.(*ssa.DebugRef); isDbg {
					continue
				}
				if p := in.Pos(); p != token.NoPos && (best == token.NoPos || p < best) {
					best = p
				}
			}
		}
		return best
	}
	sort.Slice(hs, func(i, j int) bool {
		pi, pj := posOf(hs[i]), posOf(hs[j])
		if pi != pj {
			return pi < pj
		}
		return hs[i].Index < hs[j].Index
	})
	for i, h := range hs {
		hdrs[h].ordinal = i + 1
		vc.loops = append(vc.loops, hdrs[h])
		vc.loopOf[h] = hdrs[h]
	}
	// topological order ignoring back edges
	visited := map[*ssa.BasicBlock]bool{}
	var post []*ssa.BasicBlock
	var dfs func(b *ssa.BasicBlock)
	dfs = func(b *ssa.BasicBlock) {
		visited[b] = true
		for _, s := range b.Succs {
			if s.Dominates(b) {
				continue // back edge
			}
			if !visited[s] {
				dfs(s)
			}
		}
		post = append(post, b)
	}
	if len(fn.Blocks) > 0 {
		dfs(fn.Blocks[0])
	}
	var order []*ssa.BasicBlock
	for i := len(post) - 1; i >= 0; i-- {
		order = append(order, post[i])
	}
	// reducibility: every retreating edge must be a back edge (target dominates source)
	idx := map[*ssa.BasicBlock]int{}
	for i, b := range order {
		idx[b] = i
	}
	for _, b := range order {
		for _, s := range b.Succs {
			if idx[s] <= idx[b] && !s.Dominates(b) {
				vc.fail("irreducible control flow")
			}
		}
	}
	return order
}

type inEdge struct {
	cond string
	st   *State
	from *ssa.BasicBlock
}

func orTerms(ts []string) string {
	if len(ts) == 0 {
		return "false"
	}
	if len(ts) == 1 {
		return ts[0]
	}
	return "(or " + strings.Join(ts, " ") + ")"
}

func andTerms(ts []string) string {
	var out []string
	for _, t := range ts {
		if t != "" && t != "true" {
			out = append(out, t)
		}
	}
	if len(out) == 0 {
		return "true"
	}
	if len(out) == 1 {
		return out[0]
	}
	return "(and " + strings.Join(out, " ") + ")"
}

func (vc *VC) mergeStates(edges []inEdge) *State {
	if len(edges) == 1 {
		return edges[0].st.clone()
	}
	res := &State{heaps: map[string]string{}}
	names := map[string]bool{}
	for _, e := range edges {
		for k := range e.st.heaps {
			names[k] = true
		}
	}
	var ns []string
	for k := range names {
		ns = append(ns, k)
	}
	sort.Strings(ns)
	for _, n := range ns {
		srt := vc.heapSorts[n]
		first := vc.heap(edges[0].st, n, srt)
		same := true
		for _, e := range edges[1:] {
			if vc.heap(e.st, n, srt) != first {
				same = false
			}
		}
		if same {
			res.heaps[n] = first
			continue
		}
		t := vc.heap(edges[len(edges)-1].st, n, srt)
		for i := len(edges) - 2; i >= 0; i-- {
			t = fmt.Sprintf("(ite %s %s %s)", edges[i].cond, vc.heap(edges[i].st, n, srt), t)
		}
		res.heaps[n] = vc.define(n, srt, t)
	}
	// alloc
	first := edges[0].st.alloc
	same := true
	for _, e := range edges[1:] {
		if e.st.alloc != first {
			same = false
		}
	}
	if same {
		res.alloc = first
	} else {
		t := edges[len(edges)-1].st.alloc
		for i := len(edges) - 2; i >= 0; i-- {
			t = fmt.Sprintf("(ite %s %s %s)", edges[i].cond, edges[i].st.alloc, t)
		}
		res.alloc = vc.define("alloc", "Int", t)
	}
	return res
}

func (vc *VC) phiTerm(ph *ssa.Phi, edges []inEdge) string {
	b := ph.Block()
	var vals []string
	for _, e := range edges {
		for i, p := range b.Preds {
			if p == e.from {
				vals = append(vals, vc.val(ph.Edges[i]))
				break
			}
		}
	}
	t := vals[len(vals)-1]
	for i := len(vals) - 2; i >= 0; i-- {
		if vals[i] == t {
			continue
		}
		t = fmt.Sprintf("(ite %s %s %s)", edges[i].cond, vals[i], t)
	}
	return t
}

// ---------- main driver ----------

func (vc *VC) run() (err error) {
	defer func() {
		if r := recover(); r != nil {
			if u, ok := r.(unsupported); ok {
				err = fmt.Errorf("%s: outside the supported subset: %s", vc.funcName, u.msg)
				if strings.HasPrefix(u.msg, "contract:") && vc.curClause != "" {
					err = fmt.Errorf("%v [while evaluating: %s]", err, truncate(vc.curClause, 200))
				}
				return
			}
			panic(r)
		}
	}()
	fn := vc.fn
	if len(fn.Blocks) == 0 {
		return fmt.Errorf("%s: no body", vc.funcName)
	}
	vc.d.declFun("alloc!0", "(declare-const alloc!0 Int)")
	vc.d.axioms = append(vc.d.axioms, "(assert (> alloc!0 1))")
	vc.entry = &State{heaps: map[string]string{}, alloc: "alloc!0"}
	st := vc.entry.clone()
	for _, p := range fn.Params {
		n := vc.fresh("p."+p.Name(), vc.d.sortOf(p.Type()))
		vc.vals[p] = n
		vc.assumeRange(n, p.Type(), st, "")
	}
	for _, fv := range fn.FreeVars {
		n := vc.fresh("fv."+fv.Name(), vc.d.sortOf(fv.Type()))
		vc.vals[fv] = n
		vc.assumeRange(n, fv.Type(), st, "")
		vc.assume(fmt.Sprintf("(> %s 0)", n))
	}
	// receiver of pointer type is non-nil only if the contract says so; nothing assumed here.
	env := vc.entryEnv(st)
	for i, c := range vc.spec.Requires {
		f := env.evalBool(c.E)
		env.flushSide("")
		vc.assume(f)
		_ = i
	}
	for _, c := range vc.spec.Preserves {
		f := env.evalBool(c.E)
		env.flushSide("")
		vc.assume(f)
	}
	for _, c := range vc.spec.Captures {
		// proved where the closure is created (obligation closure.captures in the creating function), and stable:
		// only write-once captured variables, their len/cap and constants may be mentioned
		f := env.evalBool(c.E)
		env.flushSide("")
		vc.assume(f)
	}
	vc.curBlock = fn.Blocks[0]
	o := vc.oblige("vacuity.requires", "", "true", "true", "precondition is satisfiable")
	o.expect = "sat"

	order := vc.analyzeLoops()
	vc.reach[fn.Blocks[0]] = "true"
	vc.execBlocks(order, st)
	for _, a := range vc.spec.AtCalls {
		if !vc.atUsed[a] {
			vc.fail("contract: 'at call %s[%d]' matches no call in the function (stale contract)", a.Callee, a.N)
		}
	}
	return nil
}

func (vc *VC) entryEnv(st *State) *Env {
	env := &Env{vc: vc, cur: st, old: vc.entry, vars: map[string]SVal{}}
	return env
}

func (vc *VC) loopContaining(b *ssa.BasicBlock) []*loopInfo {
	var res []*loopInfo
	for _, lp := range vc.loops {
		if lp.blocks[b] {
			res = append(res, lp)
		}
	}
	// outermost first: larger loops first
	sort.Slice(res, func(i, j int) bool { return len(res[i].blocks) > len(res[j].blocks) })
	return res
}

func (vc *VC) execBlocks(order []*ssa.BasicBlock, entrySt *State) {
	for _, b := range order {
		var st *State
		var edges []inEdge
		if b == order[0] {
			st = entrySt
		} else {
			for _, p := range b.Preds {
				if b.Dominates(p) {
					continue // back edge
				}
				es, ok := vc.exitState[p]
				if !ok {
					continue // unreachable pred (e.g. after panic)
				}
				c := vc.edgeCond[[2]*ssa.BasicBlock{p, b}]
				full := vc.define("edge", "Bool", andTerms([]string{vc.reach[p], c}))
				edges = append(edges, inEdge{full, es, p})
			}
			if len(edges) == 0 {
				continue
			}
			var conds []string
			for _, e := range edges {
				conds = append(conds, e.cond)
			}
			vc.reach[b] = vc.define("reach."+fmt.Sprint(b.Index), "Bool", orTerms(conds))
			st = vc.mergeStates(edges)
		}
		vc.active = vc.loopContaining(b)
		vc.curBlock = b
		if vc.fn != nil && b.Parent() == vc.fn {
			vc.mainBlock = b
		}
		if lp, ok := vc.loopOf[b]; ok {
			st = vc.enterLoop(lp, b, st, edges)
			vc.curBlock = b // (the discovery pass inside enterLoop moves it)
			vc.active = vc.loopContaining(b)
		} else {
			for _, in := range b.Instrs {
				if ph, ok := in.(*ssa.Phi); ok {
					vc.setVal(ph, vc.phiTerm(ph, edges))
				}
			}
		}
		vc.curState = st
		vc.execInstrs(b, st)
	}
}

// enterLoop handles a loop header: invariant on entry, havoc, assume invariant.
func (vc *VC) enterLoop(lp *loopInfo, b *ssa.BasicBlock, st *State, edges []inEdge) *State {
	ls := vc.spec.Loops[lp.ordinal]
	if ls == nil {
		ls = &LoopSpec{}
	}
	reachEntry := vc.reach[b]
	// 1. discovery pass: which heaps does the body write?
	written := vc.discover(lp, b, st, edges)

	// 2. invariant holds on entry
	var phis []*ssa.Phi
	for _, in := range b.Instrs {
		if ph, ok := in.(*ssa.Phi); ok {
			phis = append(phis, ph)
		}
	}
	lp.entryPhis = map[*ssa.Phi]string{}
	for _, ph := range phis {
		vc.phiOverride[ph] = vc.define(ph.Name()+".entry", vc.d.sortOf(ph.Type()), vc.phiTerm(ph, edges))
		lp.entryPhis[ph] = vc.phiOverride[ph]
	}
	lp.entryAlloc = vc.define("alloc.entry", "Int", st.alloc)
	lp.entryState = st.clone()
	lp.hdrState = st
	lp.kTerm = ""
	env := &Env{vc: vc, cur: st, old: vc.entry, vars: map[string]SVal{}, loop: lp, atHeader: true, block: b}
	for _, h := range ls.Hints {
		vc.tryHint(env, h, reachEntry) // hints that mention iterold(...) do not apply on entry and are skipped
	}
	for i, c := range ls.Invariants {
		f := env.evalBool(c.E)
		env.flushSide(reachEntry)
		vc.oblige(fmt.Sprintf("loop%d.inv.entry", lp.ordinal), labelOr(c.Name, i), reachEntry, f, c.Src)
	}
	// loop modifies declared by the user (evaluated at entry)
	lp.frameKeys = map[string][]string{}
	lp.wholeHeap = map[string]bool{}
	for _, m := range ls.Modifies {
		for _, ml := range env.evalLocs(m) {
			if ml.isMap {
				dn, vn, ln, _, _ := vc.d.mapHeaps(ml.mt)
				k := vc.define("mk", "Int", ml.key)
				for _, hn := range []string{dn, vn, ln} {
					lp.frameKeys[hn] = append(lp.frameKeys[hn], k)
				}
				continue
			}
			if ml.whole {
				lp.wholeHeap[ml.heap] = true
			} else {
				lp.frameKeys[ml.heap] = append(lp.frameKeys[ml.heap], vc.define("mk", "Int", ml.key))
			}
		}
	}
	env.flushSide(reachEntry)
	// 3. havoc
	hst := st.clone()
	var names []string
	for n := range written {
		names = append(names, n)
	}
	sort.Strings(names)
	for _, n := range names {
		if n == "$alloc" {
			a := vc.fresh("alloc.h", "Int")
			vc.assume(fmt.Sprintf("(>= %s %s)", a, lp.entryAlloc))
			hst.alloc = a
			continue
		}
		if strings.HasPrefix(n, "$") {
			continue
		}
		srt := vc.heapSorts[n]
		oldT := vc.heap(st, n, srt)
		nt := vc.fresh(n+".h", srt)
		hst.heaps[n] = nt
		if !strings.HasPrefix(srt, "(Array Int") || lp.wholeHeap[n] {
			continue
		}
		// auto frame keys: keys logged during discovery that are loop invariant
		for _, k := range written[n] {
			dup := false
			for _, k2 := range lp.frameKeys[n] {
				if k2 == k {
					dup = true
				}
			}
			if !dup {
				lp.frameKeys[n] = append(lp.frameKeys[n], k)
			}
		}
		var conj []string
		if !strings.HasPrefix(n, "GH.") {
			// ghost arrays are not allocated: every key outside the frame keeps its value
			conj = append(conj, fmt.Sprintf("(< (base r!f) %s)", lp.entryAlloc))
		}
		for _, k := range lp.frameKeys[n] {
			conj = append(conj, fmt.Sprintf("(not (= r!f %s))", k))
		}
		vc.assume(fmt.Sprintf("(forall ((r!f Int)) (! (=> %s (= (select %s r!f) (select %s r!f))) :pattern ((select %s r!f))))",
			andTerms(conj), nt, oldT, nt))
	}
	for _, ph := range phis {
		delete(vc.phiOverride, ph)
		n := vc.fresh(ph.Name(), vc.d.sortOf(ph.Type()))
		vc.vals[ph] = n
		vc.assumeRange(n, ph.Type(), hst, "")
		if lp.hdrPhis == nil {
			lp.hdrPhis = map[*ssa.Phi]string{}
		}
		lp.hdrPhis[ph] = n
	}
	lp.hdrState = hst.clone()
	// map-range loops: visited set is loop carried
	for _, mi := range vc.mapItersOf(lp) {
		mi.visited = vc.fresh("visited.h", "(Array "+vc.d.sortOf(mi.mt.Key())+" Bool)")
		mi.count = vc.fresh("count.h", "Int")
		vc.assume(fmt.Sprintf("(>= %s 0)", mi.count))
	}
	env2 := &Env{vc: vc, cur: hst, old: vc.entry, vars: map[string]SVal{}, loop: lp, atHeader: true, block: b}
	for _, c := range ls.Invariants {
		f := env2.evalBool(c.E)
		env2.flushSide(reachEntry)
		vc.assumeIf(reachEntry, f)
	}
	for _, c := range ls.Assumes {
		f := env2.evalBool(c.E)
		env2.flushSide(reachEntry)
		vc.assumeIf(reachEntry, f)
		vc.noteTrusted(fmt.Sprintf("ASSUMED at every iteration of loop %d of %s (resource bound, not checked): %s", lp.ordinal, vc.fn.Name(), c.Src))
	}
	o := vc.oblige(fmt.Sprintf("vacuity.loop%d", lp.ordinal), "", reachEntry, "true", "loop invariant is satisfiable")
	o.expect = "sat"
	return hst
}

func labelOr(name string, i int) string {
	if name != "" {
		return name
	}
	return fmt.Sprint(i)
}

func (vc *VC) mapItersOf(lp *loopInfo) []*mapIter {
	var res []*mapIter
	for r, mi := range vc.mapIterState {
		// the Range instruction is outside the loop; its Next is in the header
		for _, in := range lp.header.Instrs {
			if nx, ok := in.(*ssa.Next); ok && nx.Iter == r {
				res = append(res, mi)
			}
		}
	}
	return res
}

// discover runs the loop body once to find the heaps it writes and the
// loop-invariant keys written; all emitted lines are discarded afterwards.
func (vc *VC) discover(lp *loopInfo, b *ssa.BasicBlock, st *State, edges []inEdge) map[string][]string {
	saveLines, saveOb, saveLog, saveDisc := len(vc.lines), len(vc.obligations), vc.writeLog, vc.discovery
	saveVals := map[ssa.Value]string{}
	for k, v := range vc.vals {
		saveVals[k] = v
	}
	saveReach := map[*ssa.BasicBlock]string{}
	for k, v := range vc.reach {
		saveReach[k] = v
	}
	saveExit := map[*ssa.BasicBlock]*State{}
	for k, v := range vc.exitState {
		saveExit[k] = v
	}
	saveCalls := map[string]int{}
	for k, v := range vc.callCount {
		saveCalls[k] = v
	}
	saveCounters := map[string]int{}
	for k, v := range vc.counters {
		saveCounters[k] = v
	}
	saveActive := vc.active
	saveIter := map[*ssa.Range]mapIter{}
	for k, v := range vc.mapIterState {
		saveIter[k] = *v
	}
	mark := vc.nfresh
	vc.discovery = true
	vc.writeLog = map[string]bool{}
	keyLog := map[string][]string{}
	prevHook := hookKeys
	hookKeys = func(heap, key string) {
		inv := true
		for _, m := range bangNum.FindAllString(key, -1) {
			var n int
			fmt.Sscanf(m[1:], "%d", &n)
			if n > mark {
				inv = false
			}
		}
		if inv {
			for _, k := range keyLog[heap] {
				if k == key {
					return
				}
			}
			keyLog[heap] = append(keyLog[heap], key)
		}
	}
	func() {
		defer func() {
			if r := recover(); r != nil {
				hookKeys = prevHook
				vc.discovery = saveDisc
				panic(r)
			}
		}()
		dst := st.clone()
		// phis take their entry values
		for _, in := range b.Instrs {
			if ph, ok := in.(*ssa.Phi); ok {
				vc.vals[ph] = vc.define(ph.Name()+".d", vc.d.sortOf(ph.Type()), vc.phiTerm(ph, edges))
			}
		}
		for _, mi := range vc.mapItersOf(lp) {
			_ = mi
		}
		var body []*ssa.BasicBlock
		// order of loop blocks: reuse global topological order restricted to loop
		for _, blk := range vc.topoWithin(lp) {
			body = append(body, blk)
		}
		first := true
		for _, blk := range body {
			var bst *State
			if first {
				bst = dst
				first = false
				vc.curBlock = blk
				vc.curState = bst
				vc.execInstrs(blk, bst)
				continue
			}
			var es []inEdge
			for _, p := range blk.Preds {
				if blk.Dominates(p) || !lp.blocks[p] {
					continue
				}
				ex, ok := vc.exitState[p]
				if !ok {
					continue
				}
				c := vc.edgeCond[[2]*ssa.BasicBlock{p, blk}]
				es = append(es, inEdge{vc.define("edge", "Bool", andTerms([]string{vc.reach[p], c})), ex, p})
			}
			if len(es) == 0 {
				continue
			}
			var conds []string
			for _, e := range es {
				conds = append(conds, e.cond)
			}
			vc.reach[blk] = vc.define("reach", "Bool", orTerms(conds))
			bst = vc.mergeStates(es)
			vc.curBlock = blk
			if inner, ok := vc.loopOf[blk]; ok && inner != lp {
				// nested loop: discovery of the inner loop's writes is enough
				w := vc.discover(inner, blk, bst, es)
				for n, ks := range w {
					vc.writeLog[n] = true
					for _, k := range ks {
						hookKeys(n, k)
					}
				}
				// continue with phis as entry values
				for _, in := range blk.Instrs {
					if ph, ok := in.(*ssa.Phi); ok {
						vc.vals[ph] = vc.define(ph.Name()+".d", vc.d.sortOf(ph.Type()), vc.phiTerm(ph, es))
					}
				}
			} else {
				for _, in := range blk.Instrs {
					if ph, ok := in.(*ssa.Phi); ok {
						vc.vals[ph] = vc.define(ph.Name()+".d", vc.d.sortOf(ph.Type()), vc.phiTerm(ph, es))
					}
				}
			}
			vc.curState = bst
			vc.execInstrs(blk, bst)
		}
	}()
	res := map[string][]string{}
	for n := range vc.writeLog {
		res[n] = keyLog[n]
	}
	hookKeys = prevHook
	// restore
	vc.lines = vc.lines[:saveLines]
	vc.obligations = vc.obligations[:saveOb]
	vc.writeLog, vc.discovery = saveLog, saveDisc
	vc.vals = saveVals
	vc.reach = saveReach
	vc.exitState = saveExit
	vc.callCount = saveCalls
	vc.counters = saveCounters
	vc.active = saveActive
	for k, v := range saveIter {
		vv := v
		vc.mapIterState[k] = &vv
	}
	if saveLog != nil {
		for n := range res {
			saveLog[n] = true
		}
	}
	return res
}

var hookKeys func(heap, key string)

func (vc *VC) topoWithin(lp *loopInfo) []*ssa.BasicBlock {
	visited := map[*ssa.BasicBlock]bool{}
	var post []*ssa.BasicBlock
	var dfs func(b *ssa.BasicBlock)
	dfs = func(b *ssa.BasicBlock) {
		visited[b] = true
		for _, s := range b.Succs {
			if s.Dominates(b) || !lp.blocks[s] {
				continue
			}
			if !visited[s] {
				dfs(s)
			}
		}
		post = append(post, b)
	}
	dfs(lp.header)
	var order []*ssa.BasicBlock
	for i := len(post) - 1; i >= 0; i-- {
		order = append(order, post[i])
	}
	return order
}

// backEdge: check invariant preservation on a back edge from block b to header h.
func (vc *VC) backEdge(b, h *ssa.BasicBlock, st *State, cond string) {
	if vc.discovery {
		return
	}
	lp := vc.loopOf[h]
	ls := vc.spec.Loops[lp.ordinal]
	if ls == nil {
		ls = &LoopSpec{}
	}
	reach := vc.define("backedge", "Bool", andTerms([]string{vc.reach[b], cond}))
	var phis []*ssa.Phi
	for _, in := range h.Instrs {
		if ph, ok := in.(*ssa.Phi); ok {
			phis = append(phis, ph)
		}
	}
	saved := map[*ssa.Phi]string{}
	for _, ph := range phis {
		for i, p := range h.Preds {
			if p == b {
				saved[ph] = vc.vals[ph]
				vc.phiOverride[ph] = vc.val(ph.Edges[i])
			}
		}
	}
	for _, ph := range phis {
		delete(vc.vals, ph)
	}
	env := &Env{vc: vc, cur: st, old: vc.entry, vars: map[string]SVal{}, loop: lp, atHeader: true, block: h, iterOld: lp.hdrState}
	// vacuity guard: some back edge of every loop must be reachable under the contract assumptions, otherwise the
	// preservation proofs of its invariants say nothing (kind vacuity.backedge, evaluated per loop in main.go)
	og := vc.oblige(fmt.Sprintf("vacuity.backedge.loop%d", lp.ordinal), "", reach, "true", "a back edge of the loop is reachable under the contract assumptions")
	og.expect = "sat"
	og.Kind = "vacuity.backedge"
	og.Group = fmt.Sprintf("%s#loop%d", vc.funcName, lp.ordinal)
	for _, hnt := range ls.Hints {
		env.applyHint(hnt, reach)
	}
	for i, c := range ls.Invariants {
		f := env.evalBool(c.E)
		env.flushSide(reach)
		vc.oblige(fmt.Sprintf("loop%d.inv.preserve", lp.ordinal), labelOr(c.Name, i), reach, f, c.Src)
	}
	if ls.Decreases != nil {
		nv := env.evalInt(ls.Decreases)
		env.flushSide(reach)
		for _, ph := range phis {
			delete(vc.phiOverride, ph)
			vc.vals[ph] = saved[ph]
		}
		envH := &Env{vc: vc, cur: lp.hdrState, old: vc.entry, vars: map[string]SVal{}, loop: lp, atHeader: true, block: h}
		ov := envH.evalInt(ls.Decreases)
		envH.flushSide(reach)
		vc.oblige(fmt.Sprintf("loop%d.decreases", lp.ordinal), "", reach, fmt.Sprintf("(and (>= %s 0) (< %s %s))", ov, nv, ov), exprString(ls.Decreases))
	}
	for _, ph := range phis {
		delete(vc.phiOverride, ph)
		vc.vals[ph] = saved[ph]
	}
}
