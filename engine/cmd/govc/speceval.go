package main

// Evaluation of contract expressions to SMT terms in a given program state.

import (
	"fmt"
	"go/constant"
	"go/types"
	"math/big"
	"sort"
	"strings"

	"golang.org/x/tools/go/ssa"
)

type SVal struct {
	t    string
	typ  types.Type // nil: mathematical Int/Bool (see sort)
	sort string
	st   *State // state in which heap-dependent parts are read (nil: env.cur)
	arr  string // explicit contents for spec-level slices (after a[i := v])
	ghost *GhostDecl
	pkgName *types.PkgName
	cellOf types.Type // set: the value is a pointer to a captured variable; the name denotes its content
	lval   bool       // address of a struct-typed field reached by selection (denotes the struct stored there)
	mdom, mval string // explicit contents of a map value (domain / values arrays) when passed into a spec function
}

// rvalue converts the address of an embedded struct (obtained by field selection) into
// the struct value stored there, in the state the value was read in.
func (e *Env) rvalue(v SVal) SVal {
	if !v.lval {
		return v
	}
	T := v.typ.Underlying().(*types.Pointer).Elem()
	return SVal{t: e.vc.loadStruct(e.stOf(v), v.t, T), typ: T, sort: e.vc.d.sortOf(T), st: v.st}
}

type Env struct {
	vc        *VC
	cur, old  *State
	iterOld   *State
	inIterOld bool // evaluating the argument of iterold(...)
	vars      map[string]SVal
	loop      *loopInfo
	atHeader  bool
	block     *ssa.BasicBlock
	side      []string
	bound     []string
	noFnNames bool
	resIdx    int // which result of a several-result pure call is meant (see res1)
	pkg       *types.Package
	results   []SVal
	noUnfold  bool
	unfoldDepth int
	forceUnfold bool
	inOld     bool
	fnOverride *ssa.Function
}

type specErr struct{ msg string }

func (e *Env) fail(format string, args ...interface{}) {
	panic(unsupported{"contract: " + fmt.Sprintf(format, args...)})
}

func (e *Env) flushSide(cond string) {
	for _, s := range e.side {
		e.vc.assume(s) // side facts are universally valid instances
	}
	e.side = nil
}

func (e *Env) pkgScope() *types.Package {
	if e.pkg != nil {
		return e.pkg
	}
	if e.vc.fn != nil {
		p := e.vc.fn
		for p.Parent() != nil {
			p = p.Parent()
		}
		if p.Pkg != nil {
			return p.Pkg.Pkg
		}
	}
	return nil
}

func mathInt(t string) SVal  { return SVal{t: t, sort: "Int"} }
func mathBool(t string) SVal { return SVal{t: t, sort: "Bool"} }

func (e *Env) mk(t string, typ types.Type, st *State) SVal {
	return SVal{t: t, typ: typ, sort: e.vc.d.sortOf(typ), st: st}
}

// mkLoad: a value read from a memory cell; its type-range facts are recorded as side facts.
func (e *Env) mkLoad(t string, typ types.Type) SVal {
	e.typeSide(t, typ)
	return SVal{t: t, typ: typ, sort: e.vc.d.sortOf(typ)}
}

func (e *Env) stOf(v SVal) *State {
	if v.st != nil {
		return v.st
	}
	return e.cur
}

func (e *Env) evalBool(x Expr) string {
	if len(e.bound) == 0 {
		e.vc.curClause = exprString(x)
	}
	v := e.eval(x)
	if v.sort != "Bool" {
		e.fail("expected boolean: %s", exprString(x))
	}
	return v.t
}

func (e *Env) evalInt(x Expr) string {
	v := e.eval(x)
	if v.sort != "Int" {
		e.fail("expected integer: %s (got %s)", exprString(x), v.sort)
	}
	return v.t
}

func parseIntLit(s string) string {
	b, ok := new(big.Int).SetString(s, 0)
	if !ok {
		return s
	}
	return smtInt(b)
}

func (e *Env) eval(x Expr) SVal {
	switch n := x.(type) {
	case *EInt:
		return mathInt(parseIntLit(n.Val))
	case *EBool:
		if n.Val {
			return mathBool("true")
		}
		return mathBool("false")
	case *EStr:
		return SVal{t: e.vc.d.strConst(n.Val), typ: types.Typ[types.String], sort: "Int"}
	case *EIdent:
		return e.evalIdent(n.Name)
	case *EUnary:
		v := e.eval(n.X)
		if n.Op == "!" {
			return mathBool("(not " + v.t + ")")
		}
		return mathInt("(- " + v.t + ")")
	case *EBinary:
		return e.evalBinary(n)
	case *ECall:
		return e.evalCall(n)
	case *ESelect:
		return e.evalSelect(n)
	case *EIndex:
		return e.evalIndex(n)
	case *ESlice:
		v := e.eval(n.X)
		if _, ok := v.typ.Underlying().(*types.Slice); !ok {
			e.fail("slicing of non-slice in contract")
		}
		lo, hi := "0", "(s-len "+v.t+")"
		if n.Lo != nil {
			lo = e.evalInt(n.Lo)
		}
		if n.Hi != nil {
			hi = e.evalInt(n.Hi)
		}
		r := v
		r.t = fmt.Sprintf("(mk-slice (s-arr %s) (+ (s-off %s) %s) (- %s %s) (- (s-cap %s) %s))", v.t, v.t, lo, hi, lo, v.t, lo)
		return r
	case *EUpd:
		v := e.eval(n.X)
		i := e.evalInt(n.I)
		nv := e.eval(n.V)
		if v.typ == nil && strings.HasPrefix(v.sort, "(Array") {
			// a mathematical array (e.g. _visited): indexed by its key sort
			r := v
			r.t = fmt.Sprintf("(store %s %s %s)", v.t, e.eval(n.I).t, nv.t)
			return r
		}
		switch t := v.typ.Underlying().(type) {
		case *types.Slice:
			_ = t
			r := v
			r.arr = fmt.Sprintf("(store %s (+ (s-off %s) %s) %s)", e.contents(v), v.t, i, nv.t)
			return r
		case *types.Array:
			r := v
			r.t = fmt.Sprintf("(store %s %s %s)", v.t, i, nv.t)
			return r
		}
		e.fail("update of non-slice")
	}
	e.fail("cannot evaluate %s", exprString(x))
	return SVal{}
}

// mapContents returns the domain and value arrays of a map value (in the state it was read in).
func (e *Env) mapContents(v SVal, mt *types.Map) (dom, val string) {
	if v.mdom != "" {
		return v.mdom, v.mval
	}
	md, mv, _, _, _, _, _ := e.vc.mapTerms(e.stOf(v), mt)
	return fmt.Sprintf("(select %s %s)", md, v.t), fmt.Sprintf("(select %s %s)", mv, v.t)
}

// contents returns the (Array Int T) holding the elements of a slice value.
func (e *Env) contents(v SVal) string {
	if v.arr != "" {
		return v.arr
	}
	et := v.typ.Underlying().(*types.Slice).Elem()
	hn, hs := e.vc.d.elemHeap(et)
	return fmt.Sprintf("(select %s (s-arr %s))", e.vc.heap(e.stOf(v), hn, hs), v.t)
}

func (e *Env) evalIdent(name string) SVal {
	vc := e.vc
	if v, ok := e.vars[name]; ok {
		if v.cellOf != nil {
			l := vc.locOfRef(v.t, v.cellOf)
			if l.kind == lStruct {
				return e.mk(l.key, types.NewPointer(v.cellOf), nil)
			}
			return e.mkLoad(vc.load(e.cur, l), v.cellOf)
		}
		return v
	}
	switch name {
	case "nil":
		return SVal{t: "0", sort: "Int"}
	case "result":
		if len(e.results) >= 1 {
			return e.results[0]
		}
	case "_k":
		return mathInt(e.kTerm())
	case "_visited":
		if e.loop != nil {
			for _, mi := range vc.mapItersOf(e.loop) {
				vt := mi.visited
				if e.inIterOld && mi.prevVisited != "" {
					vt = mi.prevVisited // the set at the beginning of the iteration
				}
				return SVal{t: vt, sort: "(Array " + vc.d.sortOf(mi.mt.Key()) + " Bool)", typ: nil}
			}
		}
		e.fail("_visited outside a map range loop")
	case "_key":
		// the key produced by the current iteration of a "for k := range m" loop (meaningful in back-edge hints)
		if e.loop != nil {
			for _, mi := range vc.mapItersOf(e.loop) {
				if mi.lastKey == "" {
					e.fail("unknown name \"_key\" (no iteration yet)")
				}
				return e.mk(mi.lastKey, mi.mt.Key(), nil)
			}
		}
		e.fail("_key outside a map range loop")
	case "_range":
		// the slice a "for ... range s" loop iterates over
		if e.loop == nil {
			e.fail("_range outside a loop")
		}
		for _, in := range e.loop.header.Instrs {
			if b, ok := in.(*ssa.BinOp); ok {
				if c, ok := b.Y.(*ssa.Call); ok {
					if bi, ok := c.Call.Value.(*ssa.Builtin); ok && bi.Name() == "len" {
						a := c.Call.Args[0]
						return e.mk(vc.val(a), a.Type(), nil)
					}
				}
			}
		}
		e.fail("_range: loop %d is not a range loop over a slice", e.loop.ordinal)
	case "_loopalloc":
		if e.loop == nil {
			e.fail("_loopalloc outside a loop")
		}
		return mathInt(e.loop.entryAlloc)
	case "_alloc":
		return mathInt(e.cur.alloc)
	}
	if strings.HasPrefix(name, "result") && len(name) > 6 {
		var i int
		if _, err := fmt.Sscanf(name[6:], "%d", &i); err == nil && i < len(e.results) {
			return e.results[i]
		}
	}
	if !e.noFnNames && vc.fn != nil {
		fn := vc.fn
		if e.fnOverride != nil {
			fn = e.fnOverride
		}
		for _, p := range fn.Params {
			if p.Name() == name {
				return e.mk(vc.val(p), p.Type(), nil)
			}
		}
		for _, fv := range fn.FreeVars {
			if fv.Name() == name {
				// free variables are pointers to the captured variable: the name denotes its content
				T := fv.Type().Underlying().(*types.Pointer).Elem()
				l := vc.locOfRef(vc.val(fv), T)
				if l.kind == lStruct {
					return e.mk(l.key, fv.Type(), nil)
				}
				return e.mkLoad(vc.load(e.cur, l), T)
			}
		}
		// named results
		if res := fn.Signature.Results(); res != nil {
			for i := 0; i < res.Len(); i++ {
				if res.At(i).Name() == name && i < len(e.results) {
					return e.results[i]
				}
			}
		}
		if v, ok := e.localByName(name); ok {
			return v
		}
	}
	if c, ok := vc.w.consts[name]; ok {
		ce, err := ParseExpr(c)
		if err != nil {
			e.fail("const %s: %v", name, err)
		}
		return e.eval(ce)
	}
	if g, ok := vc.w.ghosts[name]; ok {
		return e.ghostVal(g)
	}
	// package scope
	if pkg := e.pkgScope(); pkg != nil {
		if obj := pkg.Scope().Lookup(name); obj != nil {
			return e.objVal(obj)
		}
		// imported package name?
		if pn := e.importedPkg(name); pn != nil {
			return SVal{pkgName: types.NewPkgName(0, pkg, name, pn)}
		}
	}
	ctx := ""
	if e.loop != nil {
		ctx = fmt.Sprintf(" (at loop %d, header block %d)", e.loop.ordinal, e.loop.header.Index)
	}
	e.fail("unknown name %q%s", name, ctx)
	return SVal{}
}

func (e *Env) importedPkg(name string) *types.Package {
	pkg := e.pkgScope()
	if pkg == nil {
		return nil
	}
	for _, imp := range pkg.Imports() {
		if imp.Name() == name {
			return imp
		}
	}
	// any loaded package with that name (contracts may mention packages the code does not import)
	for path, tp := range e.vc.w.tpkgs {
		if tp.Types != nil && tp.Types.Name() == name && strings.Contains(path, "lachesis-base") {
			return tp.Types
		}
	}
	for _, tp := range e.vc.w.tpkgs {
		if tp.Types != nil && tp.Types.Name() == name {
			return tp.Types
		}
	}
	return nil
}

func (e *Env) objVal(obj types.Object) SVal {
	vc := e.vc
	switch o := obj.(type) {
	case *types.Const:
		if o.Val().Kind() == constant.Int {
			b, _ := new(big.Int).SetString(o.Val().ExactString(), 10)
			return mathInt(smtInt(b))
		}
		if o.Val().Kind() == constant.Bool {
			if constant.BoolVal(o.Val()) {
				return mathBool("true")
			}
			return mathBool("false")
		}
		if o.Val().Kind() == constant.String {
			return SVal{t: vc.d.strConst(constant.StringVal(o.Val())), typ: types.Typ[types.String], sort: "Int"}
		}
		if o.Val().Kind() == constant.Float {
			if i, ok := constant.Int64Val(constant.ToInt(o.Val())); ok {
				return mathInt(fmt.Sprint(i))
			}
		}
	case *types.Var:
		sp := vc.w.prog.Package(o.Pkg())
		if sp != nil {
			if g, ok := sp.Members[o.Name()].(*ssa.Global); ok {
				return e.mk(vc.loadGlobal(g, e.cur), o.Type(), nil)
			}
		}
	case *types.TypeName:
		return SVal{t: "", typ: o.Type(), sort: "type"}
	}
	e.fail("cannot use %s in a contract", obj)
	return SVal{}
}

// localByName resolves a source-level local variable at the current point.
// localAlloc: the address-taken local variable of that name whose allocation dominates the current point (deepest).
func (e *Env) localAlloc(name string) *ssa.Alloc {
	vc := e.vc
	cb := e.block
	if cb == nil {
		cb = vc.curBlock
	}
	bestD := -1
	var alloc *ssa.Alloc
	for _, b := range vc.fn.Blocks {
		for _, in := range b.Instrs {
			if a, ok := in.(*ssa.Alloc); ok && a.Comment == name {
				if _, has := vc.locs[a]; !has {
					continue
				}
				if cb != nil && a.Block() != nil && (a.Block() == cb || a.Block().Dominates(cb)) {
					d := 0
					for x := a.Block(); x != nil; x = x.Idom() {
						d++
					}
					if d > bestD {
						bestD, alloc = d, a
					}
				}
			}
		}
	}
	return alloc
}

func (e *Env) localByName(name string) (SVal, bool) {
	vc := e.vc
	fn := vc.fn
	// 1. phi of the current loop header (or any enclosing loop header) named so
	if e.loop != nil {
		for _, in := range e.loop.header.Instrs {
			if ph, ok := in.(*ssa.Phi); ok && ph.Comment == name {
				return e.mk(vc.val(ph), ph.Type(), nil), true
			}
		}
	}
	// 2. address-taken local (Alloc with that comment)
	var alloc *ssa.Alloc
	{
		// several source variables may share a name: prefer the allocation whose block dominates the current
		// point (deepest first); fall back to the first one
		cb := e.block
		if cb == nil {
			cb = vc.curBlock
		}
		bestD := -1
		var first *ssa.Alloc
		for _, b := range fn.Blocks {
			for _, in := range b.Instrs {
				if a, ok := in.(*ssa.Alloc); ok && a.Comment == name {
					if first == nil {
						first = a
					}
					if _, has := vc.locs[a]; !has {
						continue
					}
					if cb != nil && a.Block() != nil && (a.Block() == cb || a.Block().Dominates(cb)) {
						d := 0
						for x := a.Block(); x != nil; x = x.Idom() {
							d++
						}
						if d > bestD {
							bestD, alloc = d, a
						}
					}
				}
			}
		}
		if alloc == nil && cb == nil {
			alloc = first
		}
	}
	if alloc != nil {
		if _, ok := vc.locs[alloc]; ok {
			l := vc.locs[alloc]
			T := alloc.Type().Underlying().(*types.Pointer).Elem()
			if l.kind == lStruct {
				return e.mk(l.key, alloc.Type(), nil), true
			}
			if _, isArr := T.Underlying().(*types.Array); isArr {
				return e.mkLoad(vc.load(e.cur, l), T), true
			}
			return e.mkLoad(vc.load(e.cur, l), T), true
		}
	}
	// 3. the reaching definition of the source variable: candidates are the phis named after the
	// variable and the values that DebugRefs attach to it; the right one is the candidate whose
	// DEFINITION dominates the current point and is deepest in the dominator tree.
	blk := e.block
	if blk == nil {
		blk = vc.curBlock
	}
	hasTerm := func(v ssa.Value) bool {
		if _, ok := vc.vals[v]; ok {
			return true
		}
		if _, isC := v.(*ssa.Const); isC {
			return true
		}
		if ph, isPhi := v.(*ssa.Phi); isPhi && vc.phiOverride[ph] != "" {
			return true
		}
		return false
	}
	depth := func(b *ssa.BasicBlock) int {
		d := 0
		for x := b; x != nil; x = x.Idom() {
			d++
		}
		return d
	}
	var best ssa.Value
	bestDepth, bestIdx := -1, -1
	consider := func(v ssa.Value) {
		if !hasTerm(v) {
			return
		}
		d, idx := 0, -1 // parameters and constants: shallowest
		if in, ok := v.(ssa.Instruction); ok && in.Block() != nil {
			db := in.Block()
			_, isPhi := v.(*ssa.Phi)
			if blk != nil {
				if db == blk {
					if !isPhi && e.atHeader {
						return // defined later in the block than the point of evaluation (its start)
					}
				} else if !db.Dominates(blk) {
					return
				}
			}
			d = depth(db)
			for k, x := range db.Instrs {
				if x == in {
					idx = k
				}
			}
		}
		if d > bestDepth || (d == bestDepth && idx > bestIdx) {
			best, bestDepth, bestIdx = v, d, idx
		}
	}
	for _, b := range fn.Blocks {
		for _, in := range b.Instrs {
			if ph, ok := in.(*ssa.Phi); ok && ph.Comment == name {
				consider(ph)
			}
			dr, ok := in.(*ssa.DebugRef)
			if !ok || dr.IsAddr {
				continue
			}
			if obj := dr.Object(); obj == nil || obj.Name() != name {
				continue
			}
			consider(dr.X)
		}
	}
	if best != nil {
		return e.mk(vc.val(best), best.Type(), nil), true
	}
	return SVal{}, false
}

func (e *Env) kTerm() string {
	if e.loop == nil {
		e.fail("_k outside a loop")
	}
	vc := e.vc
	for _, in := range e.loop.header.Instrs {
		if ph, ok := in.(*ssa.Phi); ok && ph.Comment == "rangeindex" {
			return "(+ " + vc.val(ph) + " 1)"
		}
	}
	for _, mi := range vc.mapItersOf(e.loop) {
		if e.inIterOld && mi.prevCount != "" {
			return mi.prevCount
		}
		return mi.count
	}
	e.fail("_k: loop %d is not a range loop", e.loop.ordinal)
	return ""
}

func (e *Env) ghostVal(g *GhostDecl) SVal {
	vc := e.vc
	name := "GH." + g.Name
	if g.Key == "" {
		_, _, vt := e.ghostSorts(g)
		srt := "Int"
		if vt != nil {
			srt = vc.d.sortOf(vt)
		} else if g.Val == "bool" {
			srt = "Bool"
		}
		return SVal{t: vc.heap(e.cur, name, srt), typ: vt, sort: srt, ghost: nil}
	}
	return SVal{ghost: g, st: e.cur}
}

func (e *Env) ghostSorts(g *GhostDecl) (ks, vs string, vt types.Type) {
	if sp := e.scopeOf(g.Pkg); sp != nil {
		saved := e.pkg
		e.pkg = sp
		defer func() { e.pkg = saved }()
	}
	kt := e.parseType(g.Key)
	ks = "Int"
	if kt != nil {
		ks = e.vc.d.sortOf(kt)
	}
	vt = e.parseType(g.Val)
	vs = "Int"
	if vt != nil {
		vs = e.vc.d.sortOf(vt)
	} else if g.Val == "bool" {
		vs = "Bool"
	}
	return
}

// goType is parseType for dynamic types of interface values: "bool" and "int" are the Go types.
func (e *Env) goType(s string) types.Type {
	switch strings.TrimSpace(s) {
	case "bool":
		return types.Typ[types.Bool]
	case "int":
		return types.Typ[types.Int]
	}
	return e.parseType(s)
}

// parseType parses a Go-like type expression; returns nil for the mathematical "int"/"bool".
func (e *Env) parseType(s string) types.Type {
	s = strings.TrimSpace(s)
	switch s {
	case "int", "bool", "":
		return nil
	}
	if strings.HasPrefix(s, "[]") {
		el := e.parseType(s[2:])
		if el == nil {
			if strings.TrimSpace(s[2:]) == "bool" {
				el = types.Typ[types.Bool]
			} else {
				el = types.Typ[types.Int]
			}
		}
		return types.NewSlice(el)
	}
	if s == "interface{}" || s == "any" {
		return types.NewInterfaceType(nil, nil)
	}
	if strings.HasPrefix(s, "*") {
		return types.NewPointer(e.parseType(s[1:]))
	}
	if strings.HasPrefix(s, "map[") {
		j := matchBracket(s, 3)
		k := e.parseType(s[4:j])
		v := e.parseType(s[j+1:])
		if k == nil {
			k = types.Typ[types.Int]
		}
		if v == nil {
			if strings.TrimSpace(s[j+1:]) == "bool" {
				v = types.Typ[types.Bool]
			} else {
				v = types.Typ[types.Int]
			}
		}
		return types.NewMap(k, v)
	}
	if strings.HasPrefix(s, "[") {
		j := matchBracket(s, 0)
		var n int64
		fmt.Sscanf(s[1:j], "%d", &n)
		el := e.parseType(s[j+1:])
		if el == nil {
			if strings.TrimSpace(s[j+1:]) == "bool" {
				el = types.Typ[types.Bool]
			} else {
				el = types.Typ[types.Int]
			}
		}
		return types.NewArray(el, n)
	}
	for _, b := range types.Typ {
		if b.Name() == s {
			return b
		}
	}
	if s == "byte" {
		return types.Typ[types.Uint8]
	}
	if s == "error" {
		return types.Universe.Lookup("error").Type()
	}
	if i := strings.Index(s, "."); i >= 0 {
		p := e.importedPkg(s[:i])
		if p == nil {
			e.fail("unknown package in type %q", s)
		}
		obj := p.Scope().Lookup(s[i+1:])
		if obj == nil {
			e.fail("unknown type %q", s)
		}
		return obj.Type()
	}
	if pkg := e.pkgScope(); pkg != nil {
		if obj := pkg.Scope().Lookup(s); obj != nil {
			if _, ok := obj.(*types.TypeName); ok {
				return obj.Type()
			}
		}
	}
	e.fail("unknown type %q", s)
	return nil
}

func (e *Env) sortOfTypeString(s string) (string, types.Type) {
	s = strings.TrimSpace(s)
	if s == "bool" {
		return "Bool", nil
	}
	t := e.parseType(s)
	if t == nil {
		return "Int", nil
	}
	return e.vc.d.sortOf(t), t
}

func (e *Env) evalBinary(n *EBinary) SVal {
	switch n.Op {
	case "&&", "||", "==>", "<==>":
		a, b := e.evalBool(n.X), e.evalBool(n.Y)
		op := map[string]string{"&&": "and", "||": "or", "==>": "=>", "<==>": "="}[n.Op]
		return mathBool(fmt.Sprintf("(%s %s %s)", op, a, b))
	}
	a, b := e.eval(n.X), e.eval(n.Y)
	if n.Op == "==" || n.Op == "!=" {
		if a.lval && b.lval {
			a, b = e.rvalue(a), e.rvalue(b)
		} else if a.lval && strings.HasPrefix(b.sort, "S.") {
			a = e.rvalue(a)
		} else if b.lval && strings.HasPrefix(a.sort, "S.") {
			b = e.rvalue(b)
		}
	}
	switch n.Op {
	case "==", "!=":
		var eq string
		if a.typ != nil {
			if _, ok := a.typ.Underlying().(*types.Slice); ok && b.t == "0" {
				eq = fmt.Sprintf("(= (s-arr %s) 0)", a.t)
			}
		}
		if eq == "" && b.t == "0" && b.typ == nil && strings.HasPrefix(a.sort, "S.") {
			eq = "false" // a struct value is never nil
		}
		if eq == "" {
			if a.sort != b.sort && !(a.sort == "Int" && b.sort == "Int") {
				e.fail("comparison of different sorts: %s (%s) vs %s (%s)", exprString(n.X), a.sort, exprString(n.Y), b.sort)
			}
			eq = fmt.Sprintf("(= %s %s)", a.t, b.t)
		}
		if n.Op == "!=" {
			eq = "(not " + eq + ")"
		}
		return mathBool(eq)
	case "<", "<=", ">", ">=":
		return mathBool(fmt.Sprintf("(%s %s %s)", n.Op, a.t, b.t))
	case "+", "-", "*":
		if a.sort != "Int" || b.sort != "Int" {
			e.fail("arithmetic on non-integers: %s", exprString(n))
		}
		return mathInt(fmt.Sprintf("(%s %s %s)", n.Op, a.t, b.t))
	case "/":
		return mathInt(fmt.Sprintf("(div %s %s)", a.t, b.t))
	case "%":
		return mathInt(fmt.Sprintf("(mod %s %s)", a.t, b.t))
	}
	e.fail("operator %s not supported in contracts", n.Op)
	return SVal{}
}

func (e *Env) lookupField(T types.Type, name string) ([]int, types.Type) {
	pkg := e.pkgScope()
	obj, idx, _ := types.LookupFieldOrMethod(T, true, pkg, name)
	if obj == nil {
		// unexported field of another package
		if n, ok := derefType(T).(*types.Named); ok && n.Obj().Pkg() != nil {
			obj, idx, _ = types.LookupFieldOrMethod(T, true, n.Obj().Pkg(), name)
		}
		if obj == nil {
			// search embedded structs manually across packages
			if s, ok := isStruct(derefType(T)); ok {
				for i := 0; i < s.NumFields(); i++ {
					f := s.Field(i)
					if f.Name() == name {
						return []int{i}, f.Type()
					}
				}
				for i := 0; i < s.NumFields(); i++ {
					f := s.Field(i)
					if f.Embedded() {
						if sub, ft := e.lookupField(f.Type(), name); sub != nil {
							return append([]int{i}, sub...), ft
						}
					}
				}
			}
			return nil, nil
		}
	}
	v, ok := obj.(*types.Var)
	if !ok {
		return nil, nil
	}
	return idx, v.Type()
}

func (e *Env) evalSelect(n *ESelect) SVal {
	x := e.eval(n.X)
	if x.pkgName != nil {
		obj := x.pkgName.Imported().Scope().Lookup(n.Name)
		if obj == nil {
			e.fail("%s.%s not found", x.pkgName.Name(), n.Name)
		}
		return e.objVal(obj)
	}
	if x.typ == nil {
		e.fail("field %s of untyped value %s", n.Name, exprString(n.X))
	}
	return e.selectField(x, n.Name)
}

func (e *Env) selectField(x SVal, name string) SVal {
	vc := e.vc
	path, _ := e.lookupField(x.typ, name)
	if path == nil {
		e.fail("no field %s in %s", name, x.typ)
	}
	cur := x
	for _, i := range path {
		T := cur.typ
		if p, ok := T.Underlying().(*types.Pointer); ok {
			S := p.Elem()
			s, _ := isStruct(S)
			ft := s.Field(i).Type()
			if _, ok := isStruct(ft); ok {
				cur = SVal{t: vc.embTermSpec(e, S, i, cur.t), typ: types.NewPointer(ft), sort: "Int", st: cur.st, lval: true}
			} else if a, ok := ft.Underlying().(*types.Array); ok {
				// array-typed field: stored in the element heap at the field's address
				hn, hs := vc.d.elemHeap(a.Elem())
				cur = SVal{t: fmt.Sprintf("(select %s %s)", vc.heap(e.stOf(cur), hn, hs), vc.embTermSpec(e, S, i, cur.t)), typ: ft, sort: vc.d.sortOf(ft), st: cur.st}
			} else {
				hn, hs := vc.d.fieldHeap(S, i)
				cur = SVal{t: fmt.Sprintf("(select %s %s)", vc.heap(e.stOf(cur), hn, hs), cur.t), typ: ft, sort: vc.d.sortOf(ft), st: cur.st}
				e.typeSide(cur.t, ft)
				// a reference stored in the heap of a state was allocated before that state
				switch ft.Underlying().(type) {
				case *types.Slice:
					e.addSide(fmt.Sprintf("(< (base (s-arr %s)) %s)", cur.t, e.stOf(cur).alloc), "")
				case *types.Pointer, *types.Map:
					e.addSide(fmt.Sprintf("(< (base %s) %s)", cur.t, e.stOf(cur).alloc), "")
				}
			}
		} else {
			s, ok := isStruct(T)
			if !ok {
				e.fail("field access on %s", T)
			}
			ft := s.Field(i).Type()
			cur = SVal{t: fmt.Sprintf("(%s %s)", vc.d.accessor(T, i), cur.t), typ: ft, sort: vc.d.sortOf(ft), st: cur.st}
			// a field of a struct VALUE (e.g. an element of a slice of structs) read in a contract: its type-range
			// facts (the code gets them when it loads the value; without them a solver may pick an out-of-range field)
			// -- only for values read from the heap: for a quantifier-bound struct variable the fact would be asserted
			// for every value of the datatype, which is contradictory (its range guard is part of the quantifier)
			if strings.Contains(cur.t, "(select ") {
				e.typeSide(cur.t, ft)
			}
		}
	}
	return cur
}

// embTermSpec: emb term used inside contracts; the provenance facts become side facts
// (they may mention bound variables, in which case they are quantified).
func (vc *VC) embTermSpec(e *Env, S types.Type, i int, ref string) string {
	n := vc.d.embName(S, i)
	t := "(" + n + " " + ref + ")"
	f := fmt.Sprintf("(and (= (own.%s %s) %s) (= (kind %s) %d) (= (base %s) (base %s)) (=> (> %s 0) (> %s 0)))",
		n, t, ref, t, vc.d.embKinds[n], t, ref, ref, t)
	e.addSide(f, t)
	return t
}

func (e *Env) addSide(f string, pattern string) {
	if len(e.bound) > 0 {
		// quantify over the bound variables that occur
		var bs []string
		for _, b := range e.bound {
			name := strings.Fields(strings.Trim(b, "()"))[0]
			if strings.Contains(f, name) {
				bs = append(bs, b)
			}
		}
		if len(bs) > 0 {
			if pattern != "" && !strings.Contains(pattern, "(ite ") && !strings.Contains(pattern, "(and ") {
				f = fmt.Sprintf("(forall (%s) (! %s :pattern (%s)))", strings.Join(bs, " "), f, pattern)
			} else if ap := autoPattern(f, bs); ap != "" {
				// a side fact without a trigger would be left to model-based instantiation, which does not terminate
				// in practice for array-sorted variables (event IDs): trigger on the terms that mention the variables
				f = fmt.Sprintf("(forall (%s) (! %s :pattern (%s)))", strings.Join(bs, " "), f, ap)
			} else {
				f = fmt.Sprintf("(forall (%s) %s)", strings.Join(bs, " "), f)
			}
		}
	}
	for _, s := range e.side {
		if s == f {
			return
		}
	}
	e.side = append(e.side, f)
}

// autoPattern picks, for every bound variable, the innermost application of an uninterpreted symbol (select, an
// accessor, a declared function) that has the variable among its arguments; the terms together form one multi-pattern.
// Returns "" if some variable has no such term (then no trigger is given).
func autoPattern(f string, binders []string) string {
	interpreted := map[string]bool{"+": true, "-": true, "*": true, "<": true, "<=": true, ">": true, ">=": true, "=": true, "and": true, "or": true,
		"not": true, "=>": true, "ite": true, "mod": true, "div": true, "distinct": true, "forall": true, "exists": true, "let": true, "!": true, "store": true}
	var pats []string
	for _, b := range binders {
		name := strings.Fields(strings.Trim(b, "()"))[0]
		best := ""
		// scan every occurrence of the variable as a whole token
		for i := 0; i+len(name) <= len(f); i++ {
			if f[i:i+len(name)] != name {
				continue
			}
			if i > 0 && f[i-1] != ' ' && f[i-1] != '(' {
				continue
			}
			if j := i + len(name); j < len(f) && f[j] != ' ' && f[j] != ')' {
				continue
			}
			// walk outwards through the enclosing applications
			pos := i
			for {
				open := -1
				depth := 0
				for k := pos - 1; k >= 0; k-- {
					if f[k] == ')' {
						depth++
					} else if f[k] == '(' {
						if depth == 0 {
							open = k
							break
						}
						depth--
					}
				}
				if open < 0 {
					break
				}
				end := matchParen(f, open)
				if end < 0 {
					break
				}
				term := f[open : end+1]
				head := strings.Fields(strings.TrimLeft(term, "("))[0]
				if strings.HasPrefix(term, "((") {
					head = "(" // binder list or similar
				}
				if !interpreted[head] && head != "(" {
					if best == "" || len(term) < len(best) {
						best = term
					}
					break
				}
				pos = open
			}
		}
		if best == "" {
			return ""
		}
		dup := false
		for _, p := range pats {
			if p == best {
				dup = true
			}
		}
		if !dup {
			pats = append(pats, best)
		}
	}
	// every binder must occur in the chosen terms, and no chosen term may contain a nested quantifier
	all := strings.Join(pats, " ")
	for _, b := range binders {
		if !strings.Contains(all, strings.Fields(strings.Trim(b, "()"))[0]) {
			return ""
		}
	}
	if strings.Contains(all, "(forall ") || strings.Contains(all, "(exists ") || strings.Contains(all, "(ite ") {
		return ""
	}
	return all
}

func (e *Env) evalIndex(n *EIndex) SVal {
	vc := e.vc
	x := e.eval(n.X)
	if x.ghost != nil {
		k := e.eval(n.I)
		ks, vs, vt := e.ghostSorts(x.ghost)
		h := vc.heap(e.stOf(x), "GH."+x.ghost.Name, "(Array "+ks+" "+vs+")")
		return SVal{t: fmt.Sprintf("(select %s %s)", h, k.t), typ: vt, sort: vs, st: x.st}
	}
	if x.typ == nil {
		if strings.HasPrefix(x.sort, "(Array") {
			k := e.eval(n.I)
			return SVal{t: fmt.Sprintf("(select %s %s)", x.t, k.t), sort: "Bool"}
		}
		e.fail("indexing untyped value")
	}
	switch t := x.typ.Underlying().(type) {
	case *types.Slice:
		i := e.evalInt(n.I)
		term := fmt.Sprintf("(select %s %s)", e.contents(x), addOff("(s-off "+x.t+")", i))
		e.rangeSide(term, t.Elem())
		return SVal{t: term, typ: t.Elem(), sort: vc.d.sortOf(t.Elem()), st: x.st}
	case *types.Array:
		i := e.evalInt(n.I)
		term := fmt.Sprintf("(select %s %s)", x.t, i)
		e.rangeSide(term, t.Elem())
		return SVal{t: term, typ: t.Elem(), sort: vc.d.sortOf(t.Elem()), st: x.st}
	case *types.Map:
		k := e.rvalue(e.eval(n.I))
		d, m := e.mapContents(x, t)
		term := fmt.Sprintf("(ite (select %s %s) (select %s %s) %s)", d, k.t, m, k.t, vc.d.zero(t.Elem()))
		e.rangeSide(term, t.Elem())
		return SVal{t: term, typ: t.Elem(), sort: vc.d.sortOf(t.Elem()), st: x.st}
	case *types.Pointer:
		if a, ok := t.Elem().Underlying().(*types.Array); ok {
			// pointer to array stored in the element heap
			hn, hs := vc.d.elemHeap(a.Elem())
			i := e.evalInt(n.I)
			term := fmt.Sprintf("(select (select %s %s) %s)", vc.heap(e.stOf(x), hn, hs), x.t, i)
			return SVal{t: term, typ: a.Elem(), sort: vc.d.sortOf(a.Elem()), st: x.st}
		}
	case *types.Basic:
		if t.Info()&types.IsString != 0 {
			vc.d.declFun("strat", "(declare-fun strat (Int Int) Int)")
			i := e.evalInt(n.I)
			return SVal{t: fmt.Sprintf("(strat %s %s)", x.t, i), typ: types.Typ[types.Uint8], sort: "Int"}
		}
	}
	e.fail("cannot index %s", x.typ)
	return SVal{}
}

// typeSide records the facts every value of the static type satisfies (integer range,
// slice header well-formedness) for a term read from the heap inside a contract.
func (e *Env) typeSide(term string, typ types.Type) {
	switch typ.Underlying().(type) {
	case *types.Basic, *types.Slice, *types.Interface, *types.Pointer, *types.Map, *types.Signature, *types.Chan:
		f := e.vc.d.rangeAssume(term, typ, "", 0)
		if f != "" {
			e.addSide(f, term)
		}
	}
}

// rangeSide records the type-range fact of a heap-read term as a side fact.
func (e *Env) rangeSide(term string, typ types.Type) {
	if _, ok := rangeOf(typ); !ok {
		if !isStringType(typ) {
			return
		}
	}
	f := e.vc.d.rangeAssume(term, typ, "", 0)
	if f != "" {
		e.addSide(f, term)
	}
}

func (e *Env) withVars(vars map[string]SVal, f func() SVal) SVal {
	saved := e.vars
	nv := map[string]SVal{}
	for k, v := range saved {
		nv[k] = v
	}
	for k, v := range vars {
		nv[k] = v
	}
	e.vars = nv
	defer func() { e.vars = saved }()
	return f()
}

func (e *Env) evalQuant(q string, n *ECall) SVal {
	vc := e.vc
	if len(n.Args) == 2 {
		tb, ok := n.Args[0].(*ETyped)
		if !ok {
			e.fail("%s: expected typed binder", q)
		}
		srt, typ := e.sortOfTypeString(tb.Type)
		vc.nfresh++
		bn := fmt.Sprintf("%s!q%d", tb.Name, vc.nfresh)
		e.bound = append(e.bound, fmt.Sprintf("(%s %s)", bn, srt))
		body := e.withVars(map[string]SVal{tb.Name: {t: bn, typ: typ, sort: srt}}, func() SVal { return e.eval(n.Args[1]) })
		e.bound = e.bound[:len(e.bound)-1]
		guard := ""
		if typ != nil {
			guard = vc.d.rangeAssume(bn, typ, "", 0)
		}
		bt := body.t
		if guard != "" {
			if q == "forall" {
				bt = fmt.Sprintf("(=> %s %s)", guard, bt)
			} else {
				bt = fmt.Sprintf("(and %s %s)", guard, bt)
			}
		}
		return mathBool(fmt.Sprintf("(%s ((%s %s)) %s)", q, bn, srt, bt))
	}
	if len(n.Args) != 4 {
		e.fail("%s expects (i, lo, hi, P) or (x T, P)", q)
	}
	id, ok := n.Args[0].(*EIdent)
	if !ok {
		e.fail("%s: binder must be an identifier", q)
	}
	lo, hi := e.evalInt(n.Args[1]), e.evalInt(n.Args[2])
	vc.nfresh++
	bn := fmt.Sprintf("%s!q%d", id.Name, vc.nfresh)
	// If the bound variable indexes a slice, quantify over the absolute index k = off+i so
	// that the element term is (select arr k): a pattern without arithmetic.
	iv := bn
	if off := e.findSliceOffset(id.Name, n.Args[3]); off != "" {
		iv = fmt.Sprintf("(- %s %s)", bn, off)
	}
	e.bound = append(e.bound, fmt.Sprintf("(%s Int)", bn))
	body := e.withVars(map[string]SVal{id.Name: mathInt(iv)}, func() SVal { return e.eval(n.Args[3]) })
	e.bound = e.bound[:len(e.bound)-1]
	if q == "forall" {
		return mathBool(fmt.Sprintf("(forall ((%s Int)) (=> (and (<= %s %s) (< %s %s)) %s))", bn, lo, iv, iv, hi, body.t))
	}
	return mathBool(fmt.Sprintf("(exists ((%s Int)) (and (<= %s %s) (< %s %s) %s))", bn, lo, iv, iv, hi, body.t))
}

// findSliceOffset looks for s[i] (or s[i±c]) in body where s is a slice expression not
// mentioning i, and returns the offset term of s ("" if none).
func (e *Env) findSliceOffset(name string, body Expr) (off string) {
	var base Expr
	plain := false
	walkExpr(body, func(x Expr) {
		if base != nil && plain {
			return
		}
		ix, ok := x.(*EIndex)
		if !ok {
			return
		}
		isPlain := false
		if id, ok := ix.I.(*EIdent); ok && id.Name == name {
			isPlain = true
		}
		if base != nil && !isPlain {
			return // keep the first candidate unless a plain s[i] is found
		}
		if !isPlain {
			// only i+c / c+i / i-c qualify (unit coefficient); anything else keeps the relative index
			b, ok := ix.I.(*EBinary)
			if !ok || (b.Op != "+" && b.Op != "-") {
				return
			}
			lid, lok := b.X.(*EIdent)
			rid, rok := b.Y.(*EIdent)
			if !((lok && lid.Name == name) || (rok && rid.Name == name && b.Op == "+")) {
				return
			}
		}
		mentions := false
		walkExpr(ix.I, func(y Expr) {
			if id, ok := y.(*EIdent); ok && id.Name == name {
				mentions = true
			}
		})
		if !mentions {
			return
		}
		baseMentions := false
		walkExpr(ix.X, func(y Expr) {
			if id, ok := y.(*EIdent); ok {
				if id.Name == name {
					baseMentions = true
				}
				// other bound variables of enclosing quantifiers are fine only if they are in vars as plain symbols
			}
		})
		if !baseMentions {
			base = ix.X
			plain = isPlain
		}
	})
	if base == nil {
		return ""
	}
	defer func() {
		if r := recover(); r != nil {
			off = ""
		}
	}()
	v := e.eval(base)
	if v.typ == nil {
		return ""
	}
	if _, ok := v.typ.Underlying().(*types.Slice); !ok {
		return ""
	}
	return "(s-off " + v.t + ")"
}

// addOff builds off+i, cancelling the (- k off) form introduced by evalQuant.
func addOff(off, i string) string {
	suffix := " " + off + ")"
	if strings.HasPrefix(i, "(- ") && strings.HasSuffix(i, suffix) {
		k := strings.TrimSuffix(strings.TrimPrefix(i, "(- "), suffix)
		if balanced(k) {
			return k
		}
	}
	for _, op := range []string{"+", "-"} {
		pre := "(" + op + " (- "
		if strings.HasPrefix(i, pre) {
			rest := i[len(pre):]
			// rest = "K OFF) C)"
			if j := strings.Index(rest, suffix+" "); j >= 0 {
				k := rest[:j]
				c := strings.TrimSuffix(rest[j+len(suffix)+1:], ")")
				if balanced(k) && balanced(c) {
					return fmt.Sprintf("(%s %s %s)", op, k, c)
				}
			}
		}
	}
	return fmt.Sprintf("(+ %s %s)", off, i)
}

func balanced(s string) bool {
	d := 0
	for _, c := range s {
		if c == '(' {
			d++
		}
		if c == ')' {
			d--
			if d < 0 {
				return false
			}
		}
	}
	return d == 0 && !strings.ContainsAny(s, " ") || (d == 0 && strings.HasPrefix(s, "("))
}

func (e *Env) evalCall(n *ECall) SVal {
	vc := e.vc
	// method-style call x.M(args)
	if sel, ok := n.Fun.(*ESelect); ok {
		return e.evalMethodCall(sel, n.Args)
	}
	id, ok := n.Fun.(*EIdent)
	if !ok {
		e.fail("unsupported call form %s", exprString(n))
	}
	switch id.Name {
	case "old":
		saved := e.cur
		e.cur = e.old
		v := e.eval(n.Args[0])
		e.cur = saved
		if v.st == nil {
			v.st = e.old
		}
		return v
	case "resultof":
		// resultof("callee", k [, i]): the (i-th) result of the k-th call of callee executed so far in this function
		cn := n.Args[0].(*EStr).Val
		k := n.Args[1].(*EInt).Val
		idx := 0
		if len(n.Args) > 2 {
			fmt.Sscanf(n.Args[2].(*EInt).Val, "%d", &idx)
		}
		full := k + ":" + cn
		rs, ok := vc.callRes[full]
		if !ok {
			// short form: the method/function name only
			for key, v := range vc.callRes {
				if strings.HasPrefix(key, k+":") && (strings.HasSuffix(key, "."+cn) || strings.HasSuffix(key, ")."+cn)) {
					rs, ok, full = v, true, key
				}
			}
		}
		if ok {
			// only calls that were executed on every path to the current point
			cb := vc.callResBlock[full]
			here := vc.curBlock
			if e.block != nil {
				here = e.block
			}
			if cb == nil || here == nil || !(cb == here || cb.Dominates(here)) {
				ok = false
			}
		}
		if !ok || idx >= len(rs) {
			e.fail("unknown name \"resultof(%s, %s)\" (call not executed yet)", cn, k)
		}
		return rs[idx]
	case "heapof":
		// heapof(all(T).f): the memory of field f of all objects of type T in the current state, as a mathematical
		// array from object references to field values (lets a spec function or lemma take memory as a parameter)
		locs := e.evalLocs(n.Args[0])
		if len(locs) != 1 || !locs[0].whole || locs[0].ghost != nil {
			e.fail("heapof expects all(T).f")
		}
		sel := n.Args[0].(*ESelect)
		T := e.parseType(typeArg(sel.X.(*ECall).Args[0]))
		st, _ := isStruct(T)
		var ft types.Type
		for i := 0; i < st.NumFields(); i++ {
			if st.Field(i).Name() == sel.Name {
				ft = st.Field(i).Type()
			}
		}
		return SVal{t: vc.heap(e.cur, locs[0].heap, locs[0].hsort), typ: types.NewArray(ft, 1), sort: locs[0].hsort}
	case "now":
		// now(v): the value v (possibly computed in an old state) as a reference into the current state:
		// now(old(p)).f reads field f of the object old(p) in the current state
		v := e.eval(n.Args[0])
		v.st = nil
		return v
	case "arrof":
		v := e.eval(n.Args[0])
		return mathInt("(s-arr " + v.t + ")")
	case "mk":
		// mk("T", f1, f2, ...): struct value of type T with the given field values (positional)
		T := e.parseType(typeArg(n.Args[0]))
		s, ok := isStruct(T)
		if !ok || s.NumFields() != len(n.Args)-1 {
			e.fail("mk: %s is not a struct with %d fields", typeArg(n.Args[0]), len(n.Args)-1)
		}
		var fs []string
		for _, a := range n.Args[1:] {
			fs = append(fs, e.rvalue(e.eval(a)).t)
		}
		return e.mk(vc.d.mkStruct(T, fs), T, nil)
	case "zero":
		T := e.parseType(typeArg(n.Args[0]))
		return e.mk(vc.d.zero(T), T, nil)
	case "arrfresh":
		// arrfresh(s, a): the backing array of slice s was allocated at or after allocation mark a
		v := e.eval(n.Args[0])
		a := e.evalInt(n.Args[1])
		return mathBool(fmt.Sprintf("(>= (base (s-arr %s)) %s)", v.t, a))
	case "freshsince":
		// freshsince(x, a): the object (pointer, map) x was allocated at or after allocation mark a
		v := e.eval(n.Args[0])
		a := e.evalInt(n.Args[1])
		return mathBool(fmt.Sprintf("(and (>= (base %s) %s) (< (base %s) %s) (= (base %s) %s) (= (kind %s) 0))", v.t, a, v.t, e.cur.alloc, v.t, v.t, v.t))
	case "offof":
		v := e.eval(n.Args[0])
		return mathInt("(s-off " + v.t + ")")
	case "cur":
		// cur(x): the current value of the source variable x where x is a parameter that the body reassigns
		// (a bare parameter name always denotes the value passed in)
		id, ok := n.Args[0].(*EIdent)
		if !ok {
			e.fail("cur(x): x must be a variable name")
		}
		if v, ok := e.localByName(id.Name); ok {
			return v
		}
		return e.eval(n.Args[0])
	case "atentry":
		// value of an expression when the enclosing loop was entered
		if e.loop == nil || e.loop.entryState == nil {
			e.fail("atentry outside a loop invariant")
		}
		return e.withPhis(e.loop.entryPhis, e.loop.entryState, func() SVal { return e.eval(n.Args[0]) })
	case "iterold":
		if e.iterOld == nil || e.loop == nil {
			e.fail("iterold outside loop preservation")
		}
		saved := e.inIterOld
		e.inIterOld = true
		defer func() { e.inIterOld = saved }()
		return e.withPhis(e.loop.hdrPhis, e.iterOld, func() SVal { return e.eval(n.Args[0]) })
	case "forall", "exists":
		return e.evalQuant(id.Name, n)
	case "ite":
		c := e.evalBool(n.Args[0])
		a, b := e.eval(n.Args[1]), e.eval(n.Args[2])
		r := a
		r.t = fmt.Sprintf("(ite %s %s %s)", c, a.t, b.t)
		return r
	case "len":
		v := e.eval(n.Args[0])
		if v.typ == nil {
			e.fail("len of untyped value")
		}
		switch t := v.typ.Underlying().(type) {
		case *types.Slice:
			return mathInt("(s-len " + v.t + ")")
		case *types.Array:
			return mathInt(fmt.Sprint(t.Len()))
		case *types.Map:
			md, _, ml, ks, _, _, _ := vc.mapTerms(e.stOf(v), t)
			e.addSide(fmt.Sprintf("(and (>= (select %s %s) 0) (forall ((k!l %s)) (! (=> (select (select %s %s) k!l) (> (select %s %s) 0)) :pattern ((select (select %s %s) k!l)))))", ml, v.t, ks, md, v.t, ml, v.t, md, v.t), "")
			return mathInt(fmt.Sprintf("(select %s %s)", ml, v.t))
		case *types.Basic:
			return mathInt("(strlen " + v.t + ")")
		}
		e.fail("len of %s", v.typ)
	case "wlocked", "rlocked", "locked":
		// lock discipline: the ghost lock state of a sync.Mutex / sync.RWMutex (the argument denotes the mutex: a
		// mutex-typed field, or a pointer to one)
		v := e.eval(n.Args[0])
		st := e.stOf(v)
		w := vc.heap(st, "GH.lkW", "(Array Int Bool)")
		r := vc.heap(st, "GH.lkR", "(Array Int Int)")
		switch id.Name {
		case "wlocked":
			return mathBool(fmt.Sprintf("(select %s %s)", w, v.t))
		case "rlocked":
			return mathBool(fmt.Sprintf("(> (select %s %s) 0)", r, v.t))
		}
		return mathBool(fmt.Sprintf("(or (select %s %s) (> (select %s %s) 0))", w, v.t, r, v.t))
	case "cap":
		v := e.eval(n.Args[0])
		if v.typ != nil {
			if _, ok := v.typ.Underlying().(*types.Chan); ok {
				vc.d.declFun("chancap", "(declare-fun chancap (Int) Int)")
				return mathInt("(chancap " + v.t + ")")
			}
		}
		return mathInt("(s-cap " + v.t + ")")
	case "has":
		m := e.eval(n.Args[0])
		k := e.eval(n.Args[1])
		if m.ghost != nil {
			ks, vs, _ := e.ghostSorts(m.ghost)
			h := vc.heap(e.stOf(m), "GH."+m.ghost.Name, "(Array "+ks+" "+vs+")")
			return mathBool(fmt.Sprintf("(select %s %s)", h, k.t))
		}
		if m.typ == nil && strings.HasPrefix(m.sort, "(Array") {
			return mathBool(fmt.Sprintf("(select %s %s)", m.t, k.t))
		}
		mt, ok := m.typ.Underlying().(*types.Map)
		if !ok {
			e.fail("has on non-map")
		}
		d, _ := e.mapContents(m, mt)
		return mathBool(fmt.Sprintf("(select %s %s)", d, k.t))
	case "fresh":
		v := e.eval(n.Args[0])
		t := v.t
		if v.typ != nil {
			if _, ok := v.typ.Underlying().(*types.Slice); ok {
				t = "(s-arr " + v.t + ")"
				return mathBool(fmt.Sprintf("(and (>= (base %s) %s) (< (base %s) %s))", t, e.old.alloc, t, e.cur.alloc))
			}
		}
		return mathBool(fmt.Sprintf("(and (>= (base %s) %s) (< (base %s) %s) (= (base %s) %s) (= (kind %s) 0))", t, e.old.alloc, t, e.cur.alloc, t, t, t))
	case "res1":
		// res1(f(args)): the second result of a pure function with several results
		saved := e.resIdx
		e.resIdx = 1
		v := e.eval(n.Args[0])
		e.resIdx = saved
		return v
	case "allocd":
		// allocd(p): the object p points to (or the array of slice p) was allocated before the current state; nil counts
		v := e.eval(n.Args[0])
		t := v.t
		if v.typ != nil {
			if _, ok := v.typ.Underlying().(*types.Slice); ok {
				t = "(s-arr " + v.t + ")"
			}
		}
		return mathBool(fmt.Sprintf("(< (base %s) %s)", t, e.cur.alloc))
	case "rowof":
		// rowof(s): the whole storage row (SMT array) that holds the elements of slice s in the current state; two
		// states agree on every element of s (and of every slice sharing its array) iff their rows are equal
		v := e.eval(n.Args[0])
		sl, ok := v.typ.Underlying().(*types.Slice)
		if !ok {
			e.fail("rowof: slice expected")
		}
		return SVal{t: e.contents(v), typ: types.NewArray(sl.Elem(), 1), sort: "(Array Int " + vc.d.sortOf(sl.Elem()) + ")", st: v.st}
	case "strof":
		// strof(b): the Go conversion string(b) of a byte slice (the symbol the executor uses for it)
		b := e.eval(n.Args[0])
		sl, ok := b.typ.Underlying().(*types.Slice)
		if !ok {
			e.fail("strof: byte slice expected")
		}
		vc.d.declFun("str.of.bytes", "(declare-fun str.of.bytes ((Array Int Int) Int Int) Int)")
		hn, hs := vc.d.elemHeap(sl.Elem())
		t := fmt.Sprintf("(str.of.bytes (select %s (s-arr %s)) (s-off %s) (s-len %s))", vc.heap(e.stOf(b), hn, hs), b.t, b.t, b.t)
		e.addSide(fmt.Sprintf("(and (>= %s 0) (= (strlen %s) (s-len %s)))", t, t, b.t), t)
		return SVal{t: t, typ: types.Typ[types.String], sort: "Int", st: b.st}
	case "bytesof":
		// bytesof(s, i): the i-th byte of the string s (as the conversion []byte(s) yields it)
		sv := e.eval(n.Args[0])
		i := e.evalInt(n.Args[1])
		vc.d.declFun("bytes.of.str", "(declare-fun bytes.of.str (Int) (Array Int Int))")
		return mathInt(fmt.Sprintf("(select (bytes.of.str %s) %s)", sv.t, i))
	case "strcat":
		// strcat(a, b): Go string concatenation a + b (the symbol the executor uses for it)
		a, b := e.eval(n.Args[0]), e.eval(n.Args[1])
		vc.d.declFun("strcat", "(declare-fun strcat (Int Int) Int)")
		t := fmt.Sprintf("(strcat %s %s)", a.t, b.t)
		e.addSide(fmt.Sprintf("(and (>= %s 0) (= (strlen %s) (+ (strlen %s) (strlen %s))))", t, t, a.t, b.t), t)
		return SVal{t: t, typ: types.Typ[types.String], sort: "Int"}
	case "substr":
		// substr(s, lo, hi): Go string slicing s[lo:hi]
		sv := e.eval(n.Args[0])
		lo, hi := e.evalInt(n.Args[1]), e.evalInt(n.Args[2])
		vc.d.declFun("substr", "(declare-fun substr (Int Int Int) Int)")
		t := fmt.Sprintf("(substr %s %s %s)", sv.t, lo, hi)
		e.addSide(fmt.Sprintf("(>= %s 0)", t), t)
		return SVal{t: t, typ: types.Typ[types.String], sort: "Int"}
	case "min", "max":
		a, b := e.evalInt(n.Args[0]), e.evalInt(n.Args[1])
		op := "<="
		if id.Name == "max" {
			op = ">="
		}
		return mathInt(fmt.Sprintf("(ite (%s %s %s) %s %s)", op, a, b, a, b))
	case "abs":
		a := e.evalInt(n.Args[0])
		return mathInt(fmt.Sprintf("(ite (>= %s 0) %s (- %s))", a, a, a))
	case "isnil":
		v := e.eval(n.Args[0])
		if v.typ != nil {
			if _, ok := v.typ.Underlying().(*types.Slice); ok {
				return mathBool(fmt.Sprintf("(= (s-arr %s) 0)", v.t))
			}
		}
		return mathBool(fmt.Sprintf("(= %s 0)", v.t))
	case "deref":
		// deref(p): content of the cell p points to (non-struct element types)
		v := e.eval(n.Args[0])
		pt, ok := v.typ.Underlying().(*types.Pointer)
		if !ok {
			e.fail("deref of non-pointer")
		}
		l := vc.locOfRef(v.t, pt.Elem())
		if l.kind == lStruct {
			return SVal{t: v.t, typ: v.typ, sort: "Int", st: v.st, lval: true}
		}
		dt := vc.load(e.stOf(v), l)
		e.typeSide(dt, pt.Elem())
		// a reference stored in the memory of a state was allocated before that state
		switch pt.Elem().Underlying().(type) {
		case *types.Slice:
			e.addSide(fmt.Sprintf("(< (base (s-arr %s)) %s)", dt, e.stOf(v).alloc), "")
		case *types.Pointer, *types.Map:
			e.addSide(fmt.Sprintf("(< (base %s) %s)", dt, e.stOf(v).alloc), "")
		}
		return SVal{t: dt, typ: pt.Elem(), sort: vc.d.sortOf(pt.Elem()), st: v.st}
	case "container":
		// container(p, "T", "f"): the *T whose struct-typed field f is stored at address p
		v := e.eval(n.Args[0])
		T := e.parseType(typeArg(n.Args[1]))
		fname := n.Args[2].(*EStr).Val
		s, ok := isStruct(T)
		if !ok {
			e.fail("container: %s is not a struct", T)
		}
		for i := 0; i < s.NumFields(); i++ {
			if s.Field(i).Name() == fname {
				en := vc.d.embName(T, i)
				return SVal{t: fmt.Sprintf("(own.%s %s)", en, v.t), typ: types.NewPointer(T), sort: "Int", st: v.st}
			}
		}
		e.fail("container: no field %s", fname)
	case "box":
		// box(v, T): the interface value holding v with dynamic type T (what the conversion to interface{} yields)
		T := e.goType(typeArg(n.Args[1]))
		v := e.eval(n.Args[0])
		bn := vc.boxName(T)
		srt := vc.d.sortOf(T)
		vc.d.declFun(bn, fmt.Sprintf("(declare-fun %s (%s) Int)", bn, srt))
		vc.d.declFun("un"+bn, fmt.Sprintf("(declare-fun un%s (Int) %s)", bn, srt))
		bt := fmt.Sprintf("(%s %s)", bn, v.t)
		e.addSide(fmt.Sprintf("(and (> %s 0) (= (typeof %s) %d) (= (un%s %s) %s))", bt, bt, vc.d.typeTag(T), bn, bt, v.t), bt)
		return SVal{t: bt, typ: types.NewInterfaceType(nil, nil), sort: "Int"}
	case "typeis":
		// typeis(x, T): dynamic type of interface value x is T
		v := e.eval(n.Args[0])
		T := e.goType(typeArg(n.Args[1]))
		return mathBool(fmt.Sprintf("(and (> %s 0) (= (typeof %s) %d))", v.t, v.t, vc.d.typeTag(T)))
	case "unbox":
		v := e.eval(n.Args[0])
		T := e.goType(typeArg(n.Args[1]))
		bn := vc.boxName(T)
		srt := vc.d.sortOf(T)
		vc.d.declFun(bn, fmt.Sprintf("(declare-fun %s (%s) Int)", bn, srt))
		vc.d.declFun("un"+bn, fmt.Sprintf("(declare-fun un%s (Int) %s)", bn, srt))
		ut := fmt.Sprintf("(un%s %s)", bn, v.t)
		if strings.Contains(v.t, "(select ") {
			// a reference held by an interface value that is stored in the memory of a state was allocated before that state
			switch T.Underlying().(type) {
			case *types.Pointer, *types.Map:
				e.addSide(fmt.Sprintf("(< (base %s) %s)", ut, e.stOf(v).alloc), "")
			}
		}
		return e.mk(ut, T, v.st)
	case "closureof":
		// closureof(f, "name"): function value f is a closure of the function with that relative name
		v := e.eval(n.Args[0])
		nm := n.Args[1].(*EStr).Val
		key := e.pkgScope().Path() + "." + nm
		code := "code." + sanitize(key)
		vc.d.declFun(code, fmt.Sprintf("(declare-const %s Int)", code))
		vc.d.declFun("fncode", "(declare-fun fncode (Int) Int)")
		return mathBool(fmt.Sprintf("(and (> %s 0) (= (fncode %s) %s))", v.t, v.t, code))
	case "captured":
		// captured(f, "name", i, T): i-th captured variable of closure f
		v := e.eval(n.Args[0])
		nm := n.Args[1].(*EStr).Val
		var idx string
		if ei, ok := n.Args[2].(*EInt); ok {
			idx = ei.Val
		} else {
			// by variable name (robust against reordering of the first uses inside the closure)
			vn := typeArg(n.Args[2])
			tf := vc.w.findFunc(e.pkgScope().Path(), nm)
			if tf == nil {
				e.fail("captured: no function %s", nm)
			}
			for i, fv := range tf.FreeVars {
				if fv.Name() == vn {
					idx = fmt.Sprint(i)
				}
			}
			if idx == "" {
				e.fail("captured: %s does not capture a variable named %s", nm, vn)
			}
		}
		T := e.parseType(typeArg(n.Args[3]))
		key := e.pkgScope().Path() + "." + nm
		fvn := fmt.Sprintf("fv.%s.%s", sanitize(key), idx)
		vc.d.declFun(fvn, fmt.Sprintf("(declare-fun %s (Int) %s)", fvn, vc.d.sortOf(T)))
		return e.mk(fmt.Sprintf("(%s %s)", fvn, v.t), T, nil)
	}
	// type conversion?
	if T := e.tryType(id.Name); T != nil && len(n.Args) == 1 {
		v := e.eval(n.Args[0])
		if v.sort == "Int" {
			return SVal{t: v.t, typ: T, sort: "Int"}
		}
		return v
	}
	if sf, ok := vc.w.specFuncs[id.Name]; ok {
		return e.applySpecFunc(sf, n.Args)
	}
	if inv, ok := vc.w.invs[id.Name]; ok {
		if len(n.Args) != 1 {
			e.fail("invariant %s takes one argument", inv.Name)
		}
		if inv.Abstract && vc.fn != nil && vc.fn.Pkg != nil && vc.fn.Pkg.Pkg.Path() != inv.Pkg {
			if inv.asSpec == nil {
				inv.asSpec = &SpecFunc{Name: inv.Name, Params: []Param{{Name: inv.Var, Type: "*" + inv.Type}}, Ret: "bool", Body: inv.Body, Opaque: true, Pkg: inv.Pkg}
			}
			uf := e.applySpecFunc(inv.asSpec, n.Args)
			if inv.Exports == nil {
				return uf
			}
			a := e.eval(n.Args[0])
			saved := e.pkg
			if sp := e.scopeOf(inv.Pkg); sp != nil {
				e.pkg = sp
			}
			ex := e.withVars(map[string]SVal{inv.Var: a}, func() SVal { return e.eval(inv.Exports) })
			e.pkg = saved
			return mathBool(fmt.Sprintf("(and %s %s)", uf.t, ex.t))
		}
		a := e.eval(n.Args[0])
		if sp := e.scopeOf(inv.Pkg); sp != nil && sp != e.pkgScope() {
			saved := e.pkg
			e.pkg = sp
			defer func() { e.pkg = saved }()
		}
		return e.withVars(map[string]SVal{inv.Var: a}, func() SVal { return e.eval(inv.Body) })
	}
	e.fail("unknown function %s in contract", id.Name)
	return SVal{}
}

func (e *Env) tryType(name string) types.Type {
	for _, b := range types.Typ {
		if b.Name() == name && name != "string" {
			return b
		}
	}
	if pkg := e.pkgScope(); pkg != nil {
		if obj := pkg.Scope().Lookup(name); obj != nil {
			if tn, ok := obj.(*types.TypeName); ok {
				return tn.Type()
			}
		}
	}
	return nil
}

func (e *Env) evalMethodCall(sel *ESelect, args []Expr) SVal {
	vc := e.vc
	x := e.eval(sel.X)
	if x.pkgName != nil {
		// pkg.Type(x) conversion or pkg.Func — only conversions are supported
		obj := x.pkgName.Imported().Scope().Lookup(sel.Name)
		if tn, ok := obj.(*types.TypeName); ok && len(args) == 1 {
			v := e.eval(args[0])
			return SVal{t: v.t, typ: tn.Type(), sort: v.sort}
		}
		if fo, ok := obj.(*types.Func); ok {
			// a package-level function with a pure contract: the same uninterpreted symbol that models its calls in code
			key := fo.Pkg().Path() + "." + fo.Name()
			spec := vc.w.funcSpecs[key]
			sig := fo.Type().(*types.Signature)
			if spec != nil && spec.Pure && sig.Results().Len() == 1 && sig.Params().Len() == len(args) && len(args) >= 1 {
				var vals []SVal
				for _, a := range args {
					vals = append(vals, e.eval(a))
				}
				var ps []*types.Var
				for j := 1; j < sig.Params().Len(); j++ {
					ps = append(ps, sig.Params().At(j))
				}
				psig := types.NewSignatureType(nil, nil, nil, types.NewTuple(ps...), sig.Results(), false)
				rv := vals[0]
				if rv.sort == "" {
					rv.sort = vc.d.sortOf(sig.Params().At(0).Type())
				}
				t := vc.pureApp(key, psig, rv, vals[1:])
				rt := sig.Results().At(0).Type()
				return SVal{t: t, typ: rt, sort: vc.d.sortOf(rt)}
			}
		}
		e.fail("call of %s.%s in contract", x.pkgName.Name(), sel.Name)
	}
	if x.typ == nil {
		e.fail("method call on untyped value")
	}
	// call of a function-typed field with a pure funcfield contract
	if path, ft := e.lookupField(x.typ, sel.Name); path != nil {
		if fsig, ok := ft.Underlying().(*types.Signature); ok {
			named, ok := derefType(x.typ).(*types.Named)
			if !ok {
				e.fail("function field of unnamed struct")
			}
			key := "funcfield:" + named.Obj().Pkg().Path() + "." + named.Obj().Name() + "." + sel.Name
			spec := vc.w.funcSpecs[key]
			if spec == nil || !spec.Pure {
				e.fail("function field %s used in a contract has no pure contract (%s)", sel.Name, key)
			}
			fv := e.selectField(x, sel.Name)
			var argVals []SVal
			for _, a := range args {
				argVals = append(argVals, e.eval(a))
			}
			if fsig.Results().Len() > 1 {
				// several results: result number e.resIdx (default 0; res1(call) selects the second)
				i := e.resIdx
				if i >= fsig.Results().Len() {
					e.fail("result index out of range")
				}
				one := types.NewSignatureType(nil, nil, nil, fsig.Params(), types.NewTuple(fsig.Results().At(i)), false)
				t := vc.pureApp(fmt.Sprintf("%s#%d", key, i), one, fv, argVals)
				rt := fsig.Results().At(i).Type()
				e.rangeSide(t, rt)
				return SVal{t: t, typ: rt, sort: vc.d.sortOf(rt), st: x.st}
			}
			t := vc.pureApp(key, fsig, fv, argVals)
			rt := fsig.Results().At(0).Type()
			e.rangeSide(t, rt)
			return SVal{t: t, typ: rt, sort: vc.d.sortOf(rt), st: x.st}
		}
	}
	// pure interface method / pure concrete method → uninterpreted function of the receiver value
	var key string
	var sig *types.Signature
	if named, ok := x.typ.(*types.Named); ok {
		if _, isI := named.Underlying().(*types.Interface); isI {
			key = "iface:" + named.Obj().Pkg().Path() + "." + named.Obj().Name() + "." + sel.Name
			obj, _, _ := types.LookupFieldOrMethod(x.typ, true, named.Obj().Pkg(), sel.Name)
			if f, ok := obj.(*types.Func); ok {
				sig = f.Type().(*types.Signature)
				// the contract is attached to the interface that declares the method (embedded interfaces)
				if rn, ok := sig.Recv().Type().(*types.Named); ok && rn.Obj().Pkg() != nil {
					key = "iface:" + rn.Obj().Pkg().Path() + "." + rn.Obj().Name() + "." + sel.Name
				}
			}
		}
	}
	if key == "" {
		obj, _, _ := types.LookupFieldOrMethod(x.typ, true, e.pkgScope(), sel.Name)
		f, ok := obj.(*types.Func)
		if !ok {
			e.fail("no method %s on %s", sel.Name, x.typ)
		}
		sig = f.Type().(*types.Signature)
		recv := sig.Recv().Type()
		rn := ""
		if p, ok := recv.(*types.Pointer); ok {
			rn = "(*" + p.Elem().(*types.Named).Obj().Name() + ")"
		} else if nt, ok := recv.(*types.Named); ok {
			rn = "(" + nt.Obj().Name() + ")"
			if _, isI := nt.Underlying().(*types.Interface); isI {
				key = "iface:" + f.Pkg().Path() + "." + nt.Obj().Name() + "." + sel.Name
			}
		}
		if key == "" {
			key = f.Pkg().Path() + "." + rn + "." + sel.Name
		}
	}
	spec := vc.w.funcSpecs[key]
	if spec == nil || !spec.Pure {
		e.fail("method %s used in a contract has no pure contract (%s)", sel.Name, key)
	}
	var argVals []SVal
	for _, a := range args {
		argVals = append(argVals, e.eval(a))
	}
	t := vc.pureApp(key, sig, x, argVals)
	rt := sig.Results().At(0).Type()
	e.rangeSide(t, rt)
	return SVal{t: t, typ: rt, sort: vc.d.sortOf(rt), st: x.st}
}

// pureApp builds the application of the uninterpreted function that models a pure method.
func (vc *VC) pureApp(key string, sig *types.Signature, recv SVal, args []SVal) string {
	name := "pure." + sanitize(strings.TrimPrefix(key, "iface:"))
	if _, ok := vc.d.funs[name]; !ok {
		var ss []string
		ss = append(ss, recv.sort)
		for i := 0; i < sig.Params().Len(); i++ {
			ss = append(ss, vc.d.sortOf(sig.Params().At(i).Type()))
		}
		vc.d.declFun(name, fmt.Sprintf("(declare-fun %s (%s) %s)", name, strings.Join(ss, " "), vc.d.sortOf(sig.Results().At(0).Type())))
		// the value of a pure (state-independent) function is well-typed and cannot be storage allocated by
		// this activation -- for every argument tuple, not only for the applications met in the code
		var bs, as []string
		for i, srt := range ss {
			bs = append(bs, fmt.Sprintf("(a!%d %s)", i, srt))
			as = append(as, fmt.Sprintf("a!%d", i))
		}
		app := "(" + name + " " + strings.Join(as, " ") + ")"
		if f := vc.d.rangeAssume(app, sig.Results().At(0).Type(), "alloc!0", 0); f != "" {
			vc.d.axioms = append(vc.d.axioms, fmt.Sprintf("(assert (forall (%s) (! %s :pattern (%s))))", strings.Join(bs, " "), f, app))
		}
	}
	ts := []string{recv.t}
	for _, a := range args {
		ts = append(ts, a.t)
	}
	return "(" + name + " " + strings.Join(ts, " ") + ")"
}

// ---- spec functions ----

func (e *Env) specFuncSig(sf *SpecFunc) (argSorts []string, ret string) {
	for _, p := range sf.Params {
		srt, typ := e.sortOfTypeString(p.Type)
		if typ != nil {
			if sl, ok := typ.Underlying().(*types.Slice); ok {
				argSorts = append(argSorts, "(Array Int "+e.vc.d.sortOf(sl.Elem())+")", "Int", "Int")
				continue
			}
			if mt, ok := typ.Underlying().(*types.Map); ok {
				ks, vs := e.vc.d.sortOf(mt.Key()), e.vc.d.sortOf(mt.Elem())
				argSorts = append(argSorts, "Int", "(Array "+ks+" Bool)", "(Array "+ks+" "+vs+")")
				continue
			}
		}
		argSorts = append(argSorts, srt)
	}
	ret, _ = e.sortOfTypeString(sf.Ret)
	return
}

func (e *Env) specArgTerms(sf *SpecFunc, vals []SVal) []string {
	var ts []string
	for i, p := range sf.Params {
		_, typ := e.sortOfTypeString(p.Type)
		if typ != nil {
			if _, ok := typ.Underlying().(*types.Slice); ok {
				v := vals[i]
				ts = append(ts, e.contents(v), "(s-off "+v.t+")", "(s-len "+v.t+")")
				continue
			}
			if mt, ok := typ.Underlying().(*types.Map); ok {
				v := vals[i]
				d, m := e.mapContents(v, mt)
				ts = append(ts, v.t, d, m)
				continue
			}
		}
		ts = append(ts, vals[i].t)
	}
	return ts
}

// withPhis evaluates f with the loop-carried variables bound to the given values and the
// heap read in state st (used by atentry(...) and iterold(...)).
func (e *Env) withPhis(phis map[*ssa.Phi]string, st *State, f func() SVal) SVal {
	vc := e.vc
	savedCur := e.cur
	savedOv := map[*ssa.Phi]string{}
	savedVals := map[*ssa.Phi]string{}
	for ph, t := range phis {
		savedOv[ph] = vc.phiOverride[ph]
		if cur, ok := vc.vals[ph]; ok {
			savedVals[ph] = cur
			delete(vc.vals, ph)
		}
		vc.phiOverride[ph] = t
	}
	e.cur = st
	v := f()
	e.cur = savedCur
	for ph := range phis {
		if savedOv[ph] == "" {
			delete(vc.phiOverride, ph)
		} else {
			vc.phiOverride[ph] = savedOv[ph]
		}
		if sv, ok := savedVals[ph]; ok {
			vc.vals[ph] = sv
		}
	}
	if v.st == nil {
		v.st = st
	}
	return v
}

// scopeOf returns the types.Package in which the names of a contract item are resolved.
func (e *Env) scopeOf(pkgPath string) *types.Package {
	if pkgPath == "" {
		return nil
	}
	if tp, ok := e.vc.w.tpkgs[pkgPath]; ok && tp.Types != nil {
		return tp.Types
	}
	return nil
}

func (e *Env) applySpecFunc(sf *SpecFunc, args []Expr) SVal {
	vc := e.vc
	if len(args) != len(sf.Params) {
		e.fail("spec function %s expects %d arguments", sf.Name, len(sf.Params))
	}
	var vals []SVal
	for _, a := range args {
		vals = append(vals, e.eval(a)) // arguments: caller's scope
	}
	if sp := e.scopeOf(sf.Pkg); sp != nil && sp != e.pkgScope() {
		saved := e.pkg
		e.pkg = sp
		defer func() { e.pkg = saved }()
	}
	for i := range args {
		v := vals[i]
		if v.lval {
			if _, pt := e.sortOfTypeString(sf.Params[i].Type); pt != nil {
				if _, isS := isStruct(pt); isS {
					v = e.rvalue(v)
				}
			}
		}
		vals[i] = v
	}
	retSort, retTyp := e.sortOfTypeString(sf.Ret)
	bind := func() map[string]SVal {
		m := map[string]SVal{}
		for i, p := range sf.Params {
			v := vals[i]
			_, pt := e.sortOfTypeString(p.Type)
			if pt != nil && v.typ == nil {
				v.typ = pt
			}
			if v.typ != nil && (sf.Recursive || sf.Opaque) {
				if _, isSlice := v.typ.Underlying().(*types.Slice); isSlice && v.arr == "" {
					// the contents are an explicit argument of the uninterpreted symbol
					v.arr = e.contents(v)
				}
				if mt, isMap := v.typ.Underlying().(*types.Map); isMap && v.mdom == "" {
					v.mdom, v.mval = e.mapContents(v, mt)
				}
			}
			m[p.Name] = v
		}
		return m
	}
	if sf.Body != nil && !sf.Recursive && !sf.Opaque {
		// inline
		saved := e.noFnNames
		e.noFnNames = true
		savedVars := e.vars
		e.vars = bind()
		r := e.eval(sf.Body)
		e.vars = savedVars
		e.noFnNames = saved
		return r
	}
	// uninterpreted symbol. The heap arrays its body reads (directly or through other spec
	// functions) are extra arguments, so that applications in different states are different terms.
	name := "spec." + sf.Name
	deps := e.specDeps(sf, bind)
	if _, ok := vc.d.funs[name]; !ok {
		as, ret := e.specFuncSig(sf)
		for _, d := range deps {
			as = append(as, d.sort)
		}
		vc.d.declFun(name, fmt.Sprintf("(declare-fun %s (%s) %s)", name, strings.Join(as, " "), ret))
	}
	argTerms := e.specArgTerms(sf, vals)
	for _, d := range deps {
		argTerms = append(argTerms, vc.heap(e.cur, d.name, d.sort))
	}
	app := "(" + name + " " + strings.Join(argTerms, " ") + ")"
	if len(argTerms) == 0 {
		app = name
	}
	res := SVal{t: app, typ: retTyp, sort: retSort}
	if sf.Body != nil && ((sf.Recursive && !sf.Opaque && !e.noUnfold && e.unfoldDepth < 2) || (sf.Opaque && e.forceUnfold)) {
		// unfolding instance of the definition (recursive calls inside are unfolded once more)
		saved, savedVars, savedF := e.noFnNames, e.vars, e.forceUnfold
		e.noFnNames = true
		e.forceUnfold = false
		e.unfoldDepth++
		e.vars = bind()
		body := e.eval(sf.Body)
		e.unfoldDepth--
		e.vars, e.noFnNames, e.forceUnfold = savedVars, saved, savedF
		e.addSide(fmt.Sprintf("(= %s %s)", app, body.t), app)
	}
	return res
}

type heapDep struct{ name, sort string }

// specDeps computes (once per spec function) the heap arrays its body reads, by a dry
// evaluation of the body whose output is discarded.
func (e *Env) specDeps(sf *SpecFunc, bind func() map[string]SVal) []heapDep {
	if sf.depsDone || sf.Body == nil {
		return sf.deps
	}
	sf.depsDone = true
	sf.deps = nil
	vc := e.vc
	savedLines, savedSide := len(vc.lines), len(e.side)
	savedDecl := len(vc.d.funOrder)
	savedRec := vc.recHeaps
	// (savedRec stays active: for an enclosing dry evaluation these are reads of ITS body)
	bound := bind() // argument preparation (reads made by the caller) is not part of the body
	vc.recHeaps = map[string]string{}
	saved, savedVars, savedU, savedF := e.noFnNames, e.vars, e.noUnfold, e.forceUnfold
	e.noFnNames, e.noUnfold, e.forceUnfold = true, true, false
	e.vars = bound
	func() {
		defer func() {
			if r := recover(); r != nil {
				// evaluation problems are reported by the real evaluation
				_ = r
			}
		}()
		e.eval(sf.Body)
	}()
	e.vars, e.noFnNames, e.noUnfold, e.forceUnfold = savedVars, saved, savedU, savedF
	var names []string
	for n := range vc.recHeaps {
		names = append(names, n)
	}
	sort.Strings(names)
	for _, n := range names {
		sf.deps = append(sf.deps, heapDep{n, vc.recHeaps[n]})
	}
	if savedRec != nil {
		for n, s := range vc.recHeaps {
			savedRec[n] = s
		}
	}
	vc.recHeaps = savedRec
	vc.lines = vc.lines[:savedLines]
	e.side = e.side[:savedSide]
	// spec functions declared during the dry evaluation were declared with provisional
	// (incomplete) heap arguments: forget those declarations
	kept := vc.d.funOrder[:0:0]
	for i, n := range vc.d.funOrder {
		if i >= savedDecl && strings.HasPrefix(n, "spec.") {
			delete(vc.d.funs, n)
			continue
		}
		kept = append(kept, n)
	}
	vc.d.funOrder = kept
	return sf.deps
}

// ---- hints ----

func (e *Env) applyHint(h Hint, cond string) {
	vc := e.vc
	switch h.Kind {
	case "assert":
		f := e.evalBool(h.E)
		e.flushSide(cond)
		vc.oblige("hint.assert", h.Name, cond, f, exprString(h.E))
		vc.assumeIf(cond, f)
	case "unfold":
		// evaluating the application emits its unfolding instance
		e.forceUnfold = true
		e.eval(h.E)
		e.forceUnfold = false
		e.flushSide(cond)
	case "use":
		c, ok := h.E.(*ECall)
		if !ok {
			e.fail("use needs a lemma application")
		}
		id := c.Fun.(*EIdent)
		lm := vc.w.lemmas[id.Name]
		if lm == nil {
			e.fail("unknown lemma %s", id.Name)
		}
		f := e.lemmaInstance(lm, c.Args)
		e.flushSide(cond)
		vc.assume(f)
		if lm.Trusted {
			vc.trustedUsed["lemma "+lm.Name+" (stated, not machine-proved)"] = true
		}
	}
}

func (e *Env) lemmaInstance(lm *Lemma, args []Expr) string {
	if len(args) != len(lm.Params) {
		e.fail("lemma %s expects %d arguments", lm.Name, len(lm.Params))
	}
	m := map[string]SVal{}
	var argVals []SVal
	for i := range lm.Params {
		argVals = append(argVals, e.eval(args[i])) // arguments: caller's scope
	}
	if sp := e.scopeOf(lm.Pkg); sp != nil && sp != e.pkgScope() {
		savedPkg := e.pkg
		e.pkg = sp
		defer func() { e.pkg = savedPkg }()
	}
	for i, p := range lm.Params {
		v := argVals[i]
		_, pt := e.sortOfTypeString(p.Type)
		if pt != nil && v.typ == nil {
			v.typ = pt
		}
		m[p.Name] = v
	}
	saved, savedVars := e.noFnNames, e.vars
	e.noFnNames = true
	e.vars = m
	var reqs, ens []string
	for _, r := range lm.Requires {
		reqs = append(reqs, e.evalBool(r))
	}
	for _, r := range lm.Ensures {
		ens = append(ens, e.evalBool(r))
	}
	e.vars, e.noFnNames = savedVars, saved
	return fmt.Sprintf("(=> %s %s)", andTerms(reqs), andTerms(ens))
}

// ---- locations for modifies clauses ----

type modLoc struct {
	heap  string
	hsort string
	key   string // object key (ref / arr / map ref)
	idx   string // element index (absolute) or "" for whole object entry
	whole bool   // the whole heap (all keys)
	isMap bool
	mt    *types.Map
	mapKey string // single map key ("" = whole map)
	ghost *GhostDecl
	structT types.Type // whole struct at key
}

func (e *Env) evalLocs(x Expr) []modLoc {
	vc := e.vc
	switch n := x.(type) {
	case *ESelect:
		if c, ok := n.X.(*ECall); ok {
			if id, ok := c.Fun.(*EIdent); ok && id.Name == "all" && len(c.Args) == 1 {
				// all(T).f : field f of every object of struct type T
				T := e.parseType(typeArg(c.Args[0]))
				st, ok := isStruct(T)
				if !ok {
					e.fail("modifies: all(%s) is not a struct type", typeArg(c.Args[0]))
				}
				for i := 0; i < st.NumFields(); i++ {
					if st.Field(i).Name() == n.Name {
						hn, hs := vc.d.fieldHeap(T, i)
						return []modLoc{{heap: hn, hsort: hs, whole: true}}
					}
				}
				e.fail("modifies: no field %s in %s", n.Name, T)
			}
		}
		base := e.eval(n.X)
		if base.typ == nil {
			e.fail("modifies: %s", exprString(x))
		}
		path, ft := e.lookupField(base.typ, n.Name)
		if path == nil {
			e.fail("modifies: no field %s", n.Name)
		}
		cur := base
		for _, i := range path[:len(path)-1] {
			s, _ := isStruct(derefType(cur.typ))
			cur = e.selectField(cur, s.Field(i).Name())
		}
		S := derefType(cur.typ)
		if _, isPtr := cur.typ.Underlying().(*types.Pointer); !isPtr {
			e.fail("modifies: field of a struct value")
		}
		i := path[len(path)-1]
		if _, ok := isStruct(ft); ok {
			// all fields of the embedded struct
			return e.structLocs(vc.embTermSpec(e, S, i, cur.t), ft)
		}
		if a, ok := ft.Underlying().(*types.Array); ok {
			hn, hs := vc.d.elemHeap(a.Elem())
			return []modLoc{{heap: hn, hsort: hs, key: vc.embTermSpec(e, S, i, cur.t)}}
		}
		hn, hs := vc.d.fieldHeap(S, i)
		return []modLoc{{heap: hn, hsort: hs, key: cur.t}}
	case *EIndex:
		base := e.eval(n.X)
		star := false
		if id, ok := n.I.(*EIdent); ok && id.Name == "*" {
			star = true
		}
		if base.ghost != nil {
			ks, vs, _ := e.ghostSorts(base.ghost)
			ml := modLoc{heap: "GH." + base.ghost.Name, hsort: "(Array " + ks + " " + vs + ")", ghost: base.ghost}
			if star {
				ml.whole = true
			} else {
				ml.key = e.eval(n.I).t
			}
			return []modLoc{ml}
		}
		switch t := base.typ.Underlying().(type) {
		case *types.Slice:
			hn, hs := vc.d.elemHeap(t.Elem())
			ml := modLoc{heap: hn, hsort: hs, key: "(s-arr " + base.t + ")"}
			if !star {
				ml.idx = fmt.Sprintf("(+ (s-off %s) %s)", base.t, e.evalInt(n.I))
			}
			return []modLoc{ml}
		case *types.Map:
			ml := modLoc{isMap: true, mt: t, key: base.t}
			if !star {
				ml.mapKey = e.eval(n.I).t
			}
			return []modLoc{ml}
		}
		e.fail("modifies: cannot index %s", base.typ)
	case *EIdent:
		// a pointer-typed name: the whole object it points to; a map: whole map; ghost scalar
		if g, ok := vc.w.ghosts[n.Name]; ok {
			if g.Key == "" {
				_, srt, _ := e.ghostSorts(g)
				return []modLoc{{heap: "GH." + g.Name, hsort: srt, ghost: g, whole: true}}
			}
			ks, vs, _ := e.ghostSorts(g)
			return []modLoc{{heap: "GH." + g.Name, hsort: "(Array " + ks + " " + vs + ")", ghost: g, whole: true}}
		}
		if cv, ok := e.vars[n.Name]; ok && cv.cellOf != nil {
			// a captured variable: the variable itself (for a pointer or map variable, as before, what it refers to)
			switch cv.cellOf.Underlying().(type) {
			case *types.Pointer, *types.Map:
			default:
				l := vc.locOfRef(cv.t, cv.cellOf)
				if l.kind == lStruct {
					return e.structLocs(l.key, cv.cellOf)
				}
				return []modLoc{{heap: l.heap, hsort: l.hsort, key: cv.t}}
			}
		}
		if _, shadowed := e.vars[n.Name]; !shadowed && !e.noFnNames && vc.fn != nil {
			fn := vc.fn
			if e.fnOverride != nil {
				fn = e.fnOverride
			}
			for _, fv := range fn.FreeVars {
				if fv.Name() != n.Name {
					continue
				}
				T := fv.Type().Underlying().(*types.Pointer).Elem()
				switch T.Underlying().(type) {
				case *types.Pointer, *types.Map:
				default:
					l := vc.locOfRef(vc.val(fv), T)
					if l.kind == lStruct {
						return e.structLocs(l.key, T)
					}
					return []modLoc{{heap: l.heap, hsort: l.hsort, key: vc.val(fv)}}
				}
			}
		}
		if _, shadowed := e.vars[n.Name]; !shadowed && !e.noFnNames && vc.fn != nil && e.fnOverride == nil {
			// an address-taken local variable of the function (e.g. the target of a decoder that is handed &x): the
			// variable itself, unless it is a pointer or map variable (then, as before, what it refers to)
			if a := e.localAlloc(n.Name); a != nil {
				T := a.Type().Underlying().(*types.Pointer).Elem()
				switch T.Underlying().(type) {
				case *types.Pointer, *types.Map:
				default:
					if l, ok := vc.locs[a]; ok {
						if l.kind == lStruct {
							return e.structLocs(l.key, T)
						}
						return []modLoc{{heap: l.heap, hsort: l.hsort, key: l.key}}
					}
				}
			}
		}
		v := e.eval(n)
		return e.locsOfValue(v, x)
	case *ECall:
		if id, ok := n.Fun.(*EIdent); ok && id.Name == "old" {
			return e.evalLocs(n.Args[0])
		}
		if id, ok := n.Fun.(*EIdent); ok && id.Name == "deref" {
			v := e.eval(n.Args[0])
			return e.locsOfValue(v, x)
		}
		if id, ok := n.Fun.(*EIdent); ok && id.Name == "allcells" && len(n.Args) == 1 {
			// allcells(T): every memory cell of (non-struct) type T that is reached through a *T pointer
			T := e.goType(typeArg(n.Args[0]))
			if T == nil {
				e.fail("allcells: type")
			}
			hn, hs := vc.d.cellHeap(T)
			return []modLoc{{heap: hn, hsort: hs, whole: true}}
		}
		if id, ok := n.Fun.(*EIdent); ok && id.Name == "allelems" && len(n.Args) == 1 {
			// allelems(T): the elements of every array/slice with element type T
			T := e.parseType(typeArg(n.Args[0]))
			if T == nil {
				e.fail("allelems: element type")
			}
			hn, hs := vc.d.elemHeap(T)
			return []modLoc{{heap: hn, hsort: hs, whole: true}}
		}
	}
	e.fail("unsupported modifies location %s", exprString(x))
	return nil
}

func (e *Env) locsOfValue(v SVal, x Expr) []modLoc {
	vc := e.vc
	if v.typ == nil {
		e.fail("modifies: %s", exprString(x))
	}
	switch t := v.typ.Underlying().(type) {
	case *types.Pointer:
		if _, ok := isStruct(t.Elem()); ok {
			return e.structLocs(v.t, t.Elem())
		}
		l := vc.locOfRef(v.t, t.Elem())
		return []modLoc{{heap: l.heap, hsort: l.hsort, key: v.t}}
	case *types.Map:
		return []modLoc{{isMap: true, mt: t, key: v.t}}
	case *types.Slice:
		hn, hs := vc.d.elemHeap(t.Elem())
		return []modLoc{{heap: hn, hsort: hs, key: "(s-arr " + v.t + ")"}}
	}
	e.fail("modifies: %s has no storage", exprString(x))
	return nil
}

func (e *Env) structLocs(ref string, T types.Type) []modLoc {
	vc := e.vc
	s, _ := isStruct(T)
	var res []modLoc
	for i := 0; i < s.NumFields(); i++ {
		ft := s.Field(i).Type()
		if _, ok := isStruct(ft); ok {
			res = append(res, e.structLocs(vc.embTermSpec(e, T, i, ref), ft)...)
		} else if a, ok := ft.Underlying().(*types.Array); ok {
			hn, hs := vc.d.elemHeap(a.Elem())
			res = append(res, modLoc{heap: hn, hsort: hs, key: vc.embTermSpec(e, T, i, ref)})
		} else {
			hn, hs := vc.d.fieldHeap(T, i)
			res = append(res, modLoc{heap: hn, hsort: hs, key: ref})
		}
	}
	return res
}

// typeArg: a type given either as an expression (Func, idx.Event) or as a string ("*StoreWithFn").
func typeArg(x Expr) string {
	if s, ok := x.(*EStr); ok {
		return s.Val
	}
	return exprString(x)
}
