package main

// Loading of /repo packages (go/packages + go/ssa) and of contract files.

import (
	"go/token"
	"fmt"
	"go/types"
	"os"
	"path/filepath"
	"sort"
	"strings"

	"golang.org/x/tools/go/packages"
	"golang.org/x/tools/go/ssa"
	"golang.org/x/tools/go/ssa/ssautil"
)

type World struct {
	dupNames  []string
	repo      string
	prog      *ssa.Program
	pkgs      map[string]*ssa.Package
	tpkgs     map[string]*packages.Package
	funcSpecs map[string]*FuncSpec // "<pkgpath>.<relname>" | "iface:<pkgpath>.<T>.<M>" | "funcfield:<pkgpath>.<T>.<f>"
	specFuncs map[string]*SpecFunc
	lemmas    map[string]*Lemma
	lemmaList []*Lemma
	invs      map[string]*InvDef
	chanInvs  map[string]*InvDef // key: pkgpath.Struct.field
	guards    map[string]*GuardDef // key: pkgpath.Struct.field
	provedBy map[string][]string // function key -> other claims that check it
	claimed   map[string]bool    // function keys of the claim being checked
	consts    map[string]string
	ghosts    map[string]*GhostDecl
	files     []*ContractFile
	immGlobal map[*ssa.Global]string // globals never stored to outside init: kind "err", "const", "other"
	globalStruct map[*ssa.Global][]*ssa.Const // struct-typed immutable globals initialised from a literal of constants: per field (nil = zero)
	opaque    map[string]bool
}

func loadWorld(repo string, patterns []string, extraContractDirs []string) (*World, error) {
	cfg := &packages.Config{Mode: packages.LoadAllSyntax, Dir: repo,
		Env: append(os.Environ(), "GOFLAGS=-mod=mod", "GOPROXY=off", "GOSUMDB=off", "GOTOOLCHAIN=local")}
	pkgs, err := packages.Load(cfg, patterns...)
	if err != nil {
		return nil, err
	}
	nerr := 0
	packages.Visit(pkgs, nil, func(p *packages.Package) {
		for _, e := range p.Errors {
			if nerr < 10 {
				fmt.Fprintf(os.Stderr, "load error: %v\n", e)
			}
			nerr++
		}
	})
	if nerr > 0 {
		return nil, fmt.Errorf("%d package load errors", nerr)
	}
	prog, _ := ssautil.AllPackages(pkgs, ssa.GlobalDebug)
	w := &World{repo: repo, prog: prog, pkgs: map[string]*ssa.Package{}, tpkgs: map[string]*packages.Package{},
		funcSpecs: map[string]*FuncSpec{}, claimed: map[string]bool{}, specFuncs: map[string]*SpecFunc{}, lemmas: map[string]*Lemma{},
		invs: map[string]*InvDef{}, consts: map[string]string{}, ghosts: map[string]*GhostDecl{},
		immGlobal: map[*ssa.Global]string{}, globalStruct: map[*ssa.Global][]*ssa.Const{}, opaque: map[string]bool{}}
	packages.Visit(pkgs, nil, func(p *packages.Package) {
		w.tpkgs[p.PkgPath] = p
		if sp := prog.Package(p.Types); sp != nil {
			w.pkgs[p.PkgPath] = sp
		}
	})
	// contract files inside the repo packages that were loaded as roots or deps within the module
	var paths []string
	for path, p := range w.tpkgs {
		if len(p.GoFiles) == 0 {
			continue
		}
		dir := filepath.Dir(p.GoFiles[0])
		if !strings.HasPrefix(dir, repo) {
			continue
		}
		cfp := filepath.Join(dir, "verif_contracts.go")
		if _, err := os.Stat(cfp); err == nil {
			paths = append(paths, path+"\x00"+cfp)
		}
	}
	sort.Strings(paths)
	for _, pp := range paths {
		f := strings.SplitN(pp, "\x00", 2)
		cf, err := ParseContractFile(f[1], f[0])
		if err != nil {
			return nil, err
		}
		w.addFile(cf)
	}
	for _, dir := range extraContractDirs {
		ents, _ := os.ReadDir(dir)
		for _, e := range ents {
			if strings.HasSuffix(e.Name(), ".contracts") {
				cf, err := ParseContractFile(filepath.Join(dir, e.Name()), "")
				if err != nil {
					return nil, err
				}
				w.addFile(cf)
			}
		}
	}
	if len(w.dupNames) > 0 {
		return nil, fmt.Errorf("contracts: %s", strings.Join(w.dupNames, "; "))
	}
	return w, nil
}

func (w *World) addFile(cf *ContractFile) {
	w.files = append(w.files, cf)
	for k, v := range cf.Consts {
		w.consts[k] = v
	}
	// names of spec functions, lemmas, invariants and ghosts are global: a second definition would silently
	// replace the first one in every contract that uses it
	dup := func(kind, name, where string) {
		w.dupNames = append(w.dupNames, fmt.Sprintf("%s %s is defined twice (second definition in %s)", kind, name, where))
	}
	for _, s := range cf.Specs {
		if _, ok := w.specFuncs[s.Name]; ok {
			dup("spec function", s.Name, cf.Path)
		}
		if _, ok := w.invs[s.Name]; ok {
			dup("spec function/invariant", s.Name, cf.Path)
		}
		w.specFuncs[s.Name] = s
	}
	for _, l := range cf.Lemmas {
		if _, ok := w.lemmas[l.Name]; ok {
			dup("lemma", l.Name, cf.Path)
		}
		w.lemmas[l.Name] = l
		w.lemmaList = append(w.lemmaList, l)
	}
	for _, i := range cf.Invs {
		if _, ok := w.invs[i.Name]; ok {
			dup("invariant", i.Name, cf.Path)
		}
		if _, ok := w.specFuncs[i.Name]; ok {
			dup("spec function/invariant", i.Name, cf.Path)
		}
		w.invs[i.Name] = i
	}
	for _, g := range cf.Guards {
		if w.guards == nil {
			w.guards = map[string]*GuardDef{}
		}
		w.guards[cf.Pkg+"."+g.Struct+"."+g.Field] = g
	}
	for _, ci := range cf.ChanInvs {
		if w.chanInvs == nil {
			w.chanInvs = map[string]*InvDef{}
		}
		w.chanInvs[cf.Pkg+"."+ci.Type] = ci
	}
	for _, g := range cf.Ghosts {
		if _, ok := w.ghosts[g.Name]; ok {
			dup("ghost", g.Name, cf.Path)
		}
		w.ghosts[g.Name] = g
	}
	for _, o := range cf.Opaque {
		w.opaque[o] = true
	}
	for _, f := range cf.Funcs {
		key := f.Pkg + "." + f.Name
		if f.View != "" {
			w.funcSpecs["view:"+f.View+":"+key] = f
			continue
		}
		switch f.Kind {
		case "iface":
			key = "iface:" + key
		case "funcfield":
			key = "funcfield:" + key
		}
		w.funcSpecs[key] = f
	}
}

// build builds SSA for one package (idempotent).
func (w *World) build(path string) *ssa.Package {
	p := w.pkgs[path]
	if p != nil {
		p.Build()
	}
	return p
}

// findFunc finds an SSA function by "<pkgpath>.<relname>".
func (w *World) findFunc(pkgPath, rel string) *ssa.Function {
	p := w.build(pkgPath)
	if p == nil {
		return nil
	}
	var res *ssa.Function
	for fn := range ssautil.AllFunctions(w.prog) {
		if fn.Pkg == p && fn.RelString(p.Pkg) == rel {
			res = fn
			break
		}
	}
	return res
}

var allFuncsCache map[string]*ssa.Function

var indexedPkgs = map[string]bool{}

// funcIndex indexes (by funcKey) every function, method and closure of the packages
// that have been built so far.
func (w *World) funcIndex() map[string]*ssa.Function {
	if allFuncsCache == nil {
		allFuncsCache = map[string]*ssa.Function{}
	}
	for path, p := range w.pkgs {
		if indexedPkgs[path] || p == nil {
			continue
		}
		// only packages that were built have bodies (and closures)
		built := false
		for _, m := range p.Members {
			if f, ok := m.(*ssa.Function); ok && len(f.Blocks) > 0 {
				built = true
				break
			}
		}
		if !built {
			continue
		}
		indexedPkgs[path] = true
		var add func(fn *ssa.Function)
		add = func(fn *ssa.Function) {
			if fn == nil {
				return
			}
			allFuncsCache[funcKey(fn)] = fn
			for _, a := range fn.AnonFuncs {
				add(a)
			}
		}
		for _, m := range p.Members {
			switch x := m.(type) {
			case *ssa.Function:
				add(x)
			case *ssa.Type:
				for _, T := range []types.Type{x.Type(), types.NewPointer(x.Type())} {
					ms := w.prog.MethodSets.MethodSet(T)
					for i := 0; i < ms.Len(); i++ {
						f := w.prog.MethodValue(ms.At(i))
						if f != nil && f.Pkg == p {
							add(f)
						}
					}
				}
			}
		}
	}
	return allFuncsCache
}

func funcKey(fn *ssa.Function) string {
	p := fn
	for p.Parent() != nil {
		p = p.Parent()
	}
	var pkg *types.Package
	if p.Pkg != nil {
		pkg = p.Pkg.Pkg
	} else if fn.Object() != nil {
		pkg = fn.Object().Pkg()
	} else if o := fn.Origin(); o != nil && o.Pkg != nil {
		pkg = o.Pkg.Pkg
	}
	if pkg == nil {
		// wrappers ($bound, $thunk) have no Pkg: derive from the method's receiver
		if fn.Signature.Recv() != nil {
			if n, ok := derefType(fn.Signature.Recv().Type()).(*types.Named); ok && n.Obj().Pkg() != nil {
				pkg = n.Obj().Pkg()
			}
		}
	}
	if pkg == nil {
		return fn.String()
	}
	return pkg.Path() + "." + fn.RelString(pkg)
}

func derefType(t types.Type) types.Type {
	if p, ok := t.Underlying().(*types.Pointer); ok {
		return p.Elem()
	}
	return t
}

func (w *World) specFor(fn *ssa.Function) *FuncSpec {
	return w.funcSpecs[funcKey(fn)]
}

// classifyGlobals finds package-level variables that are only written in init.
func (w *World) classifyGlobals(p *ssa.Package) {
	written := map[*ssa.Global]int{}
	initVal := map[*ssa.Global]ssa.Value{}
	fieldInit := map[*ssa.Global][]*ssa.Const{}
	for _, m := range p.Members {
		fn, ok := m.(*ssa.Function)
		if !ok {
			continue
		}
		var visit func(f *ssa.Function)
		visit = func(f *ssa.Function) {
			for _, b := range f.Blocks {
				for _, in := range b.Instrs {
					if st, ok := in.(*ssa.Store); ok {
						if g, ok := st.Addr.(*ssa.Global); ok {
							if f.Name() == "init" && f.Parent() == nil {
								initVal[g] = st.Val
							} else {
								written[g]++
							}
						}
					}
					// address taken elsewhere (passed around) counts as written
					for _, op := range in.Operands(nil) {
						if g, ok := (*op).(*ssa.Global); ok {
							switch in.(type) {
							case *ssa.Store, *ssa.UnOp, *ssa.DebugRef:
							case *ssa.FieldAddr:
								// init: *(&g.f) = const  (struct literal of constants stored field by field)
								fa := in.(*ssa.FieldAddr)
								okc := f.Name() == "init" && f.Parent() == nil && fa.X == ssa.Value(g)
								var cst *ssa.Const
								if okc {
									for _, fr := range *fa.Referrers() {
										if fst, ok := fr.(*ssa.Store); ok && fst.Addr == ssa.Value(fa) {
											if c, ok := fst.Val.(*ssa.Const); ok && cst == nil {
												cst = c
												continue
											}
										}
										if _, ok := fr.(*ssa.DebugRef); ok {
											continue
										}
										okc = false
									}
								}
								stT, isSt := g.Type().Underlying().(*types.Pointer).Elem().Underlying().(*types.Struct)
								if okc && isSt && cst != nil {
									if fieldInit[g] == nil {
										fieldInit[g] = make([]*ssa.Const, stT.NumFields())
									}
									fieldInit[g][fa.Field] = cst
								} else {
									written[g]++
								}
							default:
								if os.Getenv("GOVC_DEBUG_GLOBALS") != "" {
									fmt.Fprintf(os.Stderr, "global %s used by %T in %s\n", g.Name(), in, f.Name())
								}
								written[g]++
							}
						}
					}
				}
			}
			for _, a := range f.AnonFuncs {
				visit(a)
			}
		}
		visit(fn)
	}
	// methods
	for _, m := range p.Members {
		if t, ok := m.(*ssa.Type); ok {
			for _, tt := range []types.Type{t.Type(), types.NewPointer(t.Type())} {
				ms := w.prog.MethodSets.MethodSet(tt)
				for i := 0; i < ms.Len(); i++ {
					f := w.prog.MethodValue(ms.At(i))
					if f == nil || f.Pkg != p {
						continue
					}
					for _, b := range f.Blocks {
						for _, in := range b.Instrs {
							if st, ok := in.(*ssa.Store); ok {
								if g, ok := st.Addr.(*ssa.Global); ok {
									written[g]++
								}
							}
						}
					}
				}
			}
		}
	}
	for _, m := range p.Members {
		g, ok := m.(*ssa.Global)
		if !ok {
			continue
		}
		if written[g] > 0 {
			if os.Getenv("GOVC_DEBUG_GLOBALS") != "" {
				fmt.Fprintf(os.Stderr, "global %s written %d\n", g.Name(), written[g])
			}
			continue
		}
		kind := "other"
		if fi, ok := fieldInit[g]; ok {
			if _, whole := initVal[g]; !whole {
				good := true
				stT := g.Type().Underlying().(*types.Pointer).Elem().Underlying().(*types.Struct)
				for i := 0; i < stT.NumFields(); i++ {
					if b, ok := stT.Field(i).Type().Underlying().(*types.Basic); !ok || b.Info()&(types.IsInteger|types.IsBoolean) == 0 {
						good = false
					}
				}
				if good {
					kind = "structconst"
					w.globalStruct[g] = fi
				}
			} else {
				continue
			}
		}
		if v, ok := initVal[g]; ok {
			if c, ok := v.(*ssa.Call); ok {
				if f := c.Call.StaticCallee(); f != nil {
					n := f.String()
					if n == "errors.New" || n == "fmt.Errorf" || strings.HasSuffix(n, "/errors.New") || strings.HasSuffix(n, "/errors.Errorf") {
						kind = "err"
					}
				}
			}
			if mi, ok := v.(*ssa.MakeInterface); ok {
				_ = mi
				kind = "nonnil"
			}
			if c, ok := v.(*ssa.Const); ok {
				_ = c
				kind = "const"
			}
			if ld, ok := v.(*ssa.UnOp); ok && ld.Op == token.MUL {
				// struct literal of constants: t = local T (complit); *(&t.f) = const ...; *g = *t
				if al, ok := ld.X.(*ssa.Alloc); ok {
					if stT, ok := al.Type().Underlying().(*types.Pointer).Elem().Underlying().(*types.Struct); ok {
						fields := make([]*ssa.Const, stT.NumFields())
						good := true
						for _, ref := range *al.Referrers() {
							switch r := ref.(type) {
							case *ssa.FieldAddr:
								for _, fr := range *r.Referrers() {
									if fst, ok := fr.(*ssa.Store); ok && fst.Addr == r {
										if c, ok := fst.Val.(*ssa.Const); ok && fields[r.Field] == nil {
											fields[r.Field] = c
											continue
										}
									}
									good = false
								}
							case *ssa.UnOp:
								if r != ld {
									good = false
								}
							case *ssa.DebugRef:
							default:
								good = false
							}
						}
						for i := 0; i < stT.NumFields(); i++ {
							if b, ok := stT.Field(i).Type().Underlying().(*types.Basic); !ok || b.Info()&(types.IsInteger|types.IsBoolean) == 0 {
								good = false
							}
						}
						if good {
							kind = "structconst"
							w.globalStruct[g] = fields
						}
					}
				}
			}
			if sl, ok := v.(*ssa.Slice); ok && sl.Low == nil && sl.High == nil {
				if al, ok := sl.X.(*ssa.Alloc); ok {
					if arr, ok := al.Type().Underlying().(*types.Pointer).Elem().Underlying().(*types.Array); ok {
						kind = fmt.Sprintf("slice:%d", arr.Len())
					}
				}
			}
		}
		w.immGlobal[g] = kind
	}
}
