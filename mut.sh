#!/bin/bash
# usage: mut.sh <id> <file> <python-replace-old> <new>   (applies textual mutation, builds, runs check, restores)
id=$1; f=$2; old=$3; new=$4
export GOFLAGS=-mod=mod GOPROXY=off GOSUMDB=off GOTOOLCHAIN=local
cd /repo
git diff --quiet || { echo "repo dirty"; exit 1; }
python3 - "$f" "$old" "$new" <<'P'
import sys
f,old,new=sys.argv[1:4]
s=open(f).read()
if s.count(old)!=1: print("MUTATION TARGET COUNT",s.count(old)); sys.exit(3)
open(f,'w').write(s.replace(old,new))
P
[ $? = 0 ] || { git checkout -- .; exit 1; }
go build ./... 2>&1 | tail -3
cd /verif && ./check $id quick 2>&1 | grep "^FAILED\|quick:" | cut -c1-200 | head -${5:-4}
cd /repo && git checkout -- .
git -C /verif checkout -- evidence/$id.json 2>/dev/null
