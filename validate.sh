#!/bin/sh
# validates MANIFEST.json and all evidence files against the schemas
python3-vt - <<'PY'
import json,jsonschema,glob
jsonschema.validate(json.load(open('/verif/MANIFEST.json')), json.load(open('/root/.vp/MANIFEST.schema.json')))
print('manifest ok')
s=json.load(open('/root/.vp/EVIDENCE.schema.json'))
for f in sorted(glob.glob('/verif/evidence/*.json')):
    jsonschema.validate(json.load(open(f)), s)
print('evidence ok')
PY
