package vecfc

// Bounded stand-in (NOT a proof) for the part of C07 ("a merely built or rejected event leaves no trace") that lives
// in vecengine.Engine.Add / fillEventVectors / DropNotFlushed, which are not under contract as a whole: for chains of
// N events by three validators (N = 40, 300, 1500 and 5000 in the quick tier; additionally 30000 in the thorough tier), a
// fourth validator that has been absent all the time adds an event observing everything at once (the largest walk
// over ancestors that such a DAG allows), which is then dropped with DropNotFlushed. Required:
//   (1) the database under the index is byte-for-byte what it was before that Add (nothing was written through);
//   (2) a different event of that validator with the same sequence number, observing only the first event, is then
//       added for real, and every stored vector (highest-before, lowest-after, branch ID) of every event and the merged
//       clocks equal those of a second index that never saw the dropped event.
import (
	"bytes"
	"os"
	"testing"

	"github.com/Fantom-foundation/lachesis-base/hash"
	"github.com/Fantom-foundation/lachesis-base/inter/dag"
	"github.com/Fantom-foundation/lachesis-base/inter/dag/tdag"
	"github.com/Fantom-foundation/lachesis-base/inter/idx"
	"github.com/Fantom-foundation/lachesis-base/inter/pos"
	"github.com/Fantom-foundation/lachesis-base/kvdb"
	"github.com/Fantom-foundation/lachesis-base/kvdb/memorydb"
)

func ntDump(db kvdb.Store) map[string]string {
	res := map[string]string{}
	it := db.NewIterator(nil, nil)
	defer it.Release()
	for it.Next() {
		res[string(it.Key())] = string(it.Value())
	}
	return res
}

func ntEvent(n int, creator idx.ValidatorID, seq idx.Event, lamport idx.Lamport, parents ...*tdag.TestEvent) *tdag.TestEvent {
	e := &tdag.TestEvent{}
	e.SetCreator(creator)
	e.SetSeq(seq)
	e.SetLamport(lamport)
	e.SetParents(hash.Events{})
	for _, p := range parents {
		e.AddParent(p.ID())
	}
	var id [24]byte
	id[0], id[1], id[2], id[3] = byte(n>>24), byte(n>>16), byte(n>>8), byte(n)
	id[4] = 0x77
	e.SetID(id)
	return e
}

func ntRun(t *testing.T, n int) {
	nodes := []idx.ValidatorID{1, 2, 3, 4}
	b := pos.NewBuilder()
	for _, v := range nodes {
		b.Set(v, 1)
	}
	validators := b.Build()

	byID := map[hash.Event]dag.Event{}
	get := func(id hash.Event) dag.Event { return byID[id] }
	mk := func(db kvdb.Store) *Index {
		vi := NewIndex(func(err error) { t.Fatalf("crit: %v", err) }, LiteConfig())
		vi.Reset(validators, db, get)
		return vi
	}
	dbX, dbY := memorydb.New(), memorydb.New()
	x, y := mk(dbX), mk(dbY)

	// a chain over validators 1..3: event i has the previous event and its creator's previous event as parents
	var chain []*tdag.TestEvent
	last := map[idx.ValidatorID]*tdag.TestEvent{}
	for i := 0; i < n; i++ {
		c := nodes[i%3]
		var ps []*tdag.TestEvent
		if last[c] != nil {
			ps = append(ps, last[c]) // self-parent first
		}
		if i > 0 && chain[i-1] != last[c] {
			ps = append(ps, chain[i-1])
		}
		seq := idx.Event(1)
		if last[c] != nil {
			seq = last[c].Seq() + 1
		}
		e := ntEvent(i+1, c, seq, idx.Lamport(i+1), ps...)
		byID[e.ID()] = e
		chain = append(chain, e)
		last[c] = e
		for _, vi := range []*Index{x, y} {
			if err := vi.Add(e); err != nil {
				t.Fatalf("add %d: %v", i, err)
			}
			vi.Flush()
		}
	}

	// X only: the absent validator builds an event on top of everything, then it is dropped
	before := ntDump(dbX)
	built := ntEvent(n+1, nodes[3], 1, idx.Lamport(n+1), chain[n-1])
	byID[built.ID()] = built
	if err := x.Add(built); err != nil {
		t.Fatalf("add built: %v", err)
	}
	x.DropNotFlushed()
	delete(byID, built.ID())
	after := ntDump(dbX)
	if len(before) != len(after) {
		t.Fatalf("n=%d: the dropped event left a trace: %d keys in the database before, %d after", n, len(before), len(after))
	}
	for k, v := range before {
		if after[k] != v {
			t.Fatalf("n=%d: the dropped event left a trace: value of key %x changed", n, k)
		}
	}

	// both: the real first event of that validator observes only the first event of the chain
	real := ntEvent(n+2, nodes[3], 1, 2, chain[0])
	byID[real.ID()] = real
	for _, vi := range []*Index{x, y} {
		if err := vi.Add(real); err != nil {
			t.Fatalf("add real: %v", err)
		}
		vi.Flush()
	}
	all := append(append([]*tdag.TestEvent{}, chain...), real)
	for _, e := range all {
		hx, hy := x.GetHighestBefore(e.ID()), y.GetHighestBefore(e.ID())
		lx, ly := x.GetLowestAfter(e.ID()), y.GetLowestAfter(e.ID())
		if (hx == nil) != (hy == nil) || (hx != nil && !bytes.Equal(*hx, *hy)) {
			t.Fatalf("n=%d: highest-before vector of event %s differs after a dropped event", n, e.ID().String())
		}
		if (lx == nil) != (ly == nil) || (lx != nil && !bytes.Equal(*lx, *ly)) {
			t.Fatalf("n=%d: lowest-after vector of event %s differs after a dropped event", n, e.ID().String())
		}
		if x.GetEventBranchID(e.ID()) != y.GetEventBranchID(e.ID()) {
			t.Fatalf("n=%d: branch ID of event %s differs after a dropped event", n, e.ID().String())
		}
	}
}

func TestVerifBoundedNoTrace(t *testing.T) {
	sizes := []int{40, 300, 1500, 5000}
	if os.Getenv("VERIF_TIER") == "thorough" {
		sizes = append(sizes, 30000)
	}
	for _, n := range sizes {
		ntRun(t, n)
	}
}
