package flushable

// Bounded stand-in (NOT a proof) for flushableIterator.Next and nextNode, the merged ordered iteration of the
// flushable store (C22): exhaustive over small stores. For every underlying content U and overlay O built from the
// key alphabet below (every subset assignment: absent / value / tombstone, where a tombstone is only possible in the
// overlay) and every (prefix, start) from the same alphabet, the iteration must yield exactly the keys of
// view = O over U (overlay value wins, tombstone hides) that have the prefix and are >= prefix+start, in ascending
// order, each once, with the view's values. Also checked: iteration does not change the store.
import (
	"bytes"
	"sort"
	"testing"

	"github.com/Fantom-foundation/lachesis-base/kvdb"
	"github.com/Fantom-foundation/lachesis-base/kvdb/devnulldb"
)

var vbAlphabet = [][]byte{{}, []byte("a"), []byte("ab"), []byte("a\xff"), []byte("b"), []byte("\xff")}

func vbKeys() [][]byte {
	// non-empty keys only (the empty key is used as prefix/start, and as a key too for completeness)
	return vbAlphabet
}

// an in-memory ordered store used as "underlying": a Flushable over the null store, fully flushed is not possible
// (the null store forgets), so the underlying content is itself held in a flushable's overlay; this is the same
// construction as memorydb.
func vbStore(content map[string][]byte) kvdb.Store {
	s := Wrap(devnulldb.New())
	for k, v := range content {
		_ = s.Put([]byte(k), v)
	}
	return s
}

func vbExpected(under, over map[string][]byte, tomb map[string]bool, prefix, start []byte) (keys []string, vals map[string][]byte) {
	vals = map[string][]byte{}
	for k, v := range under {
		vals[k] = v
	}
	for k, v := range over {
		vals[k] = v
	}
	for k := range tomb {
		delete(vals, k)
	}
	from := append(append([]byte{}, prefix...), start...)
	for k := range vals {
		if bytes.HasPrefix([]byte(k), prefix) && bytes.Compare([]byte(k), from) >= 0 {
			keys = append(keys, k)
		}
	}
	sort.Strings(keys)
	return
}

func TestVerifBoundedFlushableIter(t *testing.T) {
	keys := vbKeys()
	n := len(keys)
	cases := 0
	// underlying: each key absent/present (2^n); overlay: each key absent/value/tombstone (3^n)
	pow3 := 1
	for i := 0; i < n; i++ {
		pow3 *= 3
	}
	for um := 0; um < 1<<uint(n); um++ {
		under := map[string][]byte{}
		for i, k := range keys {
			if um&(1<<uint(i)) != 0 {
				under[string(k)] = []byte{'u', byte(i)}
			}
		}
		for om := 0; om < pow3; om++ {
			over := map[string][]byte{}
			tomb := map[string]bool{}
			x := om
			for i, k := range keys {
				switch x % 3 {
				case 1:
					if i%2 == 0 {
						over[string(k)] = []byte{} // empty values are values
					} else {
						over[string(k)] = []byte{'o', byte(i)}
					}
				case 2:
					tomb[string(k)] = true
				}
				x /= 3
			}
			w := Wrap(vbStore(under))
			for k, v := range over {
				_ = w.Put([]byte(k), v)
			}
			for k := range tomb {
				_ = w.Delete([]byte(k))
			}
			pairsBefore := w.NotFlushedPairs()
			for _, prefix := range vbAlphabet {
				for _, start := range vbAlphabet {
					wantKeys, wantVals := vbExpected(under, over, tomb, prefix, start)
					it := w.NewIterator(prefix, start)
					var got []string
					for it.Next() {
						k := string(it.Key())
						got = append(got, k)
						if !bytes.Equal(it.Value(), wantVals[k]) {
							t.Fatalf("under=%v over=%v tomb=%v prefix=%q start=%q: key %q has value %q, want %q", under, over, tomb, prefix, start, k, it.Value(), wantVals[k])
						}
						if it.Value() == nil {
							t.Fatalf("nil value yielded for key %q", k)
						}
					}
					it.Release()
					if len(got) != len(wantKeys) {
						t.Fatalf("under=%v over=%v tomb=%v prefix=%q start=%q: got %q, want %q", under, over, tomb, prefix, start, got, wantKeys)
					}
					for i := range got {
						if got[i] != wantKeys[i] {
							t.Fatalf("under=%v over=%v tomb=%v prefix=%q start=%q: got %q, want %q", under, over, tomb, prefix, start, got, wantKeys)
						}
					}
					cases++
				}
			}
			if w.NotFlushedPairs() != pairsBefore {
				t.Fatalf("iteration changed the overlay")
			}
		}
	}
	t.Logf("bounded: %d iterations checked", cases)
}
