package vecfc

// Bounded stand-in (NOT a proof) for vecengine.Engine.fillEventVectors (through Engine.Add), the function that links
// the stored vectors to the event graph and that is not under contract (C05, C06): exhaustive over all DAGs with up
// to 4 events (quick tier; 5 in the thorough tier) over 3 validators (creator, any earlier own event or none as self-parent -- so every fork shape --, and
// for each other validator none or one of its earlier events as parent), plus a seeded pseudo-random sample of larger
// DAGs (5..8 events). Every DAG is indexed in its generation order and in a second parents-first order; after each
// the index must agree with the plain graph definitions:
//   merged clock (C06): fork for validator v iff two different ancestor-or-self events of v share a sequence number,
//                       else the highest sequence number of v among the ancestors-or-self (0 if none);
//   forkless cause (C05): FC(A,B) iff A's ancestry shows no fork by B's creator and the validators without fork in A's
//                       ancestry that created an event x with B <= x <= A hold a quorum of weight;
// and both orders must give the same answers.
import (
	"math/rand"
	"os"
	"strconv"
	"testing"

	"github.com/Fantom-foundation/lachesis-base/hash"
	"github.com/Fantom-foundation/lachesis-base/inter/dag"
	"github.com/Fantom-foundation/lachesis-base/inter/dag/tdag"
	"github.com/Fantom-foundation/lachesis-base/inter/idx"
	"github.com/Fantom-foundation/lachesis-base/inter/pos"
	"github.com/Fantom-foundation/lachesis-base/kvdb/memorydb"
)

type vbEv struct {
	creator int
	selfP   int   // index of self-parent event or -1
	others  []int // indices of other parents
	seq     idx.Event
}

func vbBuildEvents(evs []vbEv, nodes []idx.ValidatorID) []*tdag.TestEvent {
	res := make([]*tdag.TestEvent, len(evs))
	for i, ev := range evs {
		e := &tdag.TestEvent{}
		e.SetCreator(nodes[ev.creator])
		e.SetSeq(ev.seq)
		e.SetParents(hash.Events{})
		lamport := idx.Lamport(1)
		add := func(p *tdag.TestEvent) {
			e.AddParent(p.ID())
			if p.Lamport() >= lamport {
				lamport = p.Lamport() + 1
			}
		}
		if ev.selfP >= 0 {
			add(res[ev.selfP]) // self-parent first
		}
		for _, o := range ev.others {
			add(res[o])
		}
		e.SetLamport(lamport)
		var id [24]byte
		id[0], id[1], id[2] = byte(i+1), 0x5a, byte(len(evs))
		e.SetID(id)
		res[i] = e
	}
	return res
}

func vbCheck(t *testing.T, evs []vbEv, order []int, weights []pos.Weight, nodes []idx.ValidatorID) (fc map[[2]int]bool) {
	b := pos.NewBuilder()
	for i, n := range nodes {
		b.Set(n, weights[i])
	}
	validators := b.Build()
	events := vbBuildEvents(evs, nodes)
	byID := map[hash.Event]dag.Event{}
	pos_ := map[hash.Event]int{}
	for i, e := range events {
		byID[e.ID()] = e
		pos_[e.ID()] = i
	}
	vi := NewIndex(func(err error) { t.Fatalf("crit: %v (dag %v)", err, evs) }, LiteConfig())
	vi.Reset(validators, memorydb.New(), func(id hash.Event) dag.Event { return byID[id] })
	for _, i := range order {
		if err := vi.Add(events[i]); err != nil {
			t.Fatalf("Add: %v (dag %v order %v)", err, evs, order)
		}
		vi.Flush()
	}
	// plain graph definitions
	n := len(evs)
	anc := make([][]bool, n) // anc[a][x]: x is an ancestor-or-self of a
	for a := 0; a < n; a++ {
		anc[a] = make([]bool, n)
		anc[a][a] = true
		ps := append([]int{}, evs[a].others...)
		if evs[a].selfP >= 0 {
			ps = append(ps, evs[a].selfP)
		}
		for _, p := range ps {
			for x := 0; x < n; x++ {
				if anc[p][x] {
					anc[a][x] = true
				}
			}
		}
	}
	total := pos.Weight(0)
	for _, w := range weights {
		total += w
	}
	quorum := total*2/3 + 1
	idxs := validators.Idxs()
	forked := func(a, v int) bool {
		for x := 0; x < n; x++ {
			for y := x + 1; y < n; y++ {
				if anc[a][x] && anc[a][y] && evs[x].creator == v && evs[y].creator == v && evs[x].seq == evs[y].seq {
					return true
				}
			}
		}
		return false
	}
	fc = map[[2]int]bool{}
	for a := 0; a < n; a++ {
		merged := vi.GetMergedHighestBefore(events[a].ID())
		for v := range nodes {
			got := merged.Get(idxs[nodes[v]])
			wantFork := forked(a, v)
			var high idx.Event
			for x := 0; x < n; x++ {
				if anc[a][x] && evs[x].creator == v && evs[x].seq > high {
					high = evs[x].seq
				}
			}
			if got.IsForkDetected() != wantFork || (!wantFork && got.Seq != high) {
				t.Fatalf("merged clock of event %d for validator %d: fork=%v seq=%d, want fork=%v seq=%d (dag %+v order %v)", a, v, got.IsForkDetected(), got.Seq, wantFork, high, evs, order)
			}
		}
		for bb := 0; bb < n; bb++ {
			want := false
			if !forked(a, evs[bb].creator) {
				var w pos.Weight
				for v := range nodes {
					if forked(a, v) {
						continue
					}
					for x := 0; x < n; x++ {
						if evs[x].creator == v && anc[a][x] && anc[x][bb] {
							w += weights[v]
							break
						}
					}
				}
				want = w >= quorum
			}
			got := vi.ForklessCause(events[a].ID(), events[bb].ID())
			if got != want {
				t.Fatalf("ForklessCause(%d,%d) = %v, want %v (dag %+v order %v weights %v)", a, bb, got, want, evs, order, weights)
			}
			fc[[2]int{a, bb}] = got
		}
	}
	return fc
}

// a second parents-first order: repeatedly take the LAST event all of whose parents are already taken
func vbOtherOrder(evs []vbEv) []int {
	n := len(evs)
	done := make([]bool, n)
	var order []int
	for len(order) < n {
		for i := n - 1; i >= 0; i-- {
			if done[i] {
				continue
			}
			ok := evs[i].selfP < 0 || done[evs[i].selfP]
			for _, o := range evs[i].others {
				ok = ok && done[o]
			}
			if ok {
				done[i] = true
				order = append(order, i)
				break
			}
		}
	}
	return order
}

func vbBoth(t *testing.T, evs []vbEv, weights []pos.Weight, nodes []idx.ValidatorID) {
	gen := make([]int, len(evs))
	for i := range gen {
		gen[i] = i
	}
	a := vbCheck(t, evs, gen, weights, nodes)
	b := vbCheck(t, evs, vbOtherOrder(evs), weights, nodes)
	for k, v := range a {
		if b[k] != v {
			t.Fatalf("ForklessCause%v depends on the indexing order (dag %+v)", k, evs)
		}
	}
}

func vbEnumerate(n, V int, evs []vbEv, f func([]vbEv)) {
	if len(evs) == n {
		f(evs)
		return
	}
	for c := 0; c < V; c++ {
		// self-parent choices
		selfs := []int{-1}
		for i, e := range evs {
			if e.creator == c {
				selfs = append(selfs, i)
			}
		}
		for _, sp := range selfs {
			seq := idx.Event(1)
			if sp >= 0 {
				seq = evs[sp].seq + 1
			}
			// other parents: for each other creator none or one of its events
			var rec func(v int, chosen []int)
			rec = func(v int, chosen []int) {
				if v == V {
					ne := vbEv{creator: c, selfP: sp, others: append([]int{}, chosen...), seq: seq}
					vbEnumerate(n, V, append(append([]vbEv{}, evs...), ne), f)
					return
				}
				if v == c {
					rec(v+1, chosen)
					return
				}
				rec(v+1, chosen)
				for i, e := range evs {
					if e.creator == v {
						rec(v+1, append(append([]int{}, chosen...), i))
					}
				}
			}
			rec(0, nil)
		}
	}
}

func TestVerifBoundedVecfcGraph(t *testing.T) {
	nodes := tdag.GenNodes(3)
	weightSets := [][]pos.Weight{{1, 1, 1}, {2, 1, 1}}
	count := 0
	for n := 1; n <= vbMaxN(); n++ {
		vbEnumerate(n, 3, nil, func(evs []vbEv) {
			vbBoth(t, evs, weightSets[count%2], nodes)
			count++
		})
	}
	exhaustive := count
	seed := int64(1)
	if s := os.Getenv("VERIF_SEED"); s != "" {
		if v, err := strconv.ParseInt(s, 10, 64); err == nil {
			seed = v
		}
	}
	r := rand.New(rand.NewSource(seed))
	samples := 4000
	if os.Getenv("VERIF_TIER") == "thorough" {
		samples = 20000
	}
	for k := 0; k < samples; k++ {
		n := 5 + r.Intn(4)
		var evs []vbEv
		for len(evs) < n {
			c := r.Intn(3)
			sp := -1
			var own []int
			for i, e := range evs {
				if e.creator == c {
					own = append(own, i)
				}
			}
			if len(own) > 0 && r.Intn(5) != 0 {
				if r.Intn(3) == 0 {
					sp = own[r.Intn(len(own))] // possibly a fork
				} else {
					sp = own[len(own)-1]
				}
			}
			seq := idx.Event(1)
			if sp >= 0 {
				seq = evs[sp].seq + 1
			}
			var others []int
			for v := 0; v < 3; v++ {
				if v == c {
					continue
				}
				var theirs []int
				for i, e := range evs {
					if e.creator == v {
						theirs = append(theirs, i)
					}
				}
				if len(theirs) > 0 && r.Intn(4) != 0 {
					others = append(others, theirs[r.Intn(len(theirs))])
				}
			}
			evs = append(evs, vbEv{creator: c, selfP: sp, others: others, seq: seq})
		}
		vbBoth(t, evs, weightSets[k%2], nodes)
		count++
	}
	t.Logf("bounded: %d DAGs exhaustively (<= %d events, 3 validators), %d sampled (5..8 events, seed %d), two indexing orders each", exhaustive, vbMaxN(), count-exhaustive, seed)
}

// exhaustive bound: 4 events in the quick tier, 5 in the thorough tier
func vbMaxN() int {
	if os.Getenv("VERIF_TIER") == "thorough" {
		return 5
	}
	return 4
}
