package table

// Bounded stand-in (NOT a proof) for table.incPrefix, the one function of C24 that goes through
// math/big: exhaustive over all prefixes of length <= 2 plus structured patterns up to length 9.
// Checks: result is nil iff the prefix is empty or all 0xff; otherwise it has the same length,
// its big-endian value is value(prefix)+1, and every key that starts with the prefix is
// lexicographically >= prefix and < result (the range [prefix, incPrefix(prefix)) covers the table).
import (
	"bytes"
	"fmt"
	"math/big"
	"testing"
)

func checkIncPrefix(t *testing.T, p []byte) {
	orig := append([]byte{}, p...)
	r := incPrefix(p)
	if !bytes.Equal(orig, p) {
		t.Fatalf("incPrefix modified its argument %x", orig)
	}
	allFF := true
	for _, b := range p {
		if b != 0xff {
			allFF = false
		}
	}
	if len(p) == 0 || allFF {
		if r != nil {
			t.Fatalf("incPrefix(%x) = %x, want nil", p, r)
		}
		return
	}
	if r == nil || len(r) != len(p) {
		t.Fatalf("incPrefix(%x) = %x, want same length", p, r)
	}
	want := new(big.Int).Add(new(big.Int).SetBytes(p), big.NewInt(1))
	if new(big.Int).SetBytes(r).Cmp(want) != 0 {
		t.Fatalf("incPrefix(%x) = %x, want value+1", p, r)
	}
	for _, tail := range [][]byte{{}, {0}, {0xff}, {0xff, 0xff, 0xff}} {
		k := append(append([]byte{}, p...), tail...)
		if bytes.Compare(k, p) < 0 || bytes.Compare(k, r) >= 0 {
			t.Fatalf("key %x with prefix %x is outside [%x, %x)", k, p, p, r)
		}
	}
}

func TestVerifBoundedIncPrefix(t *testing.T) {
	n := 0
	checkIncPrefix(t, nil)
	checkIncPrefix(t, []byte{})
	n += 2
	for a := 0; a < 256; a++ {
		checkIncPrefix(t, []byte{byte(a)})
		n++
		for b := 0; b < 256; b++ {
			checkIncPrefix(t, []byte{byte(a), byte(b)})
			n++
		}
	}
	vals := []byte{0x00, 0x01, 0x7f, 0x80, 0xfe, 0xff}
	for l := 3; l <= 9; l++ {
		for _, first := range vals {
			for _, mid := range vals {
				for _, last := range vals {
					p := bytes.Repeat([]byte{mid}, l)
					p[0], p[l-1] = first, last
					checkIncPrefix(t, p)
					n++
				}
			}
		}
	}
	fmt.Println("BOUNDED-CASES", n)
}
