package ancestor

// Bounded stand-in (NOT a proof) for QuorumIndexer.recacheState, whose contract is trusted (it sorts through
// sort.Slice with a comparison closure): the first clause of C20 -- "the median reported for a validator is the largest
// sequence number s such that validators holding at least a quorum of weight have, in their latest processed events,
// observed that validator at s or above (a detected fork counts as the maximal observation)" -- is compared with its
// definition after EVERY processed event, and the metric with the defined sum, for
//   all sequences of up to 2 events (quick tier; 3 in the thorough tier) over 3 validators with weights {1,1,1} and
//   {2,1,1}, each event by any creator with a merged clock whose entries range over {0, 1, 2, fork}
//   (NOT required to be monotone: an own second branch may observe less than the first), plus
//   30,000 (thorough: 300,000) seeded pseudo-random sequences of 4..8 events over 4 validators {3,2,1,1}.
import (
	"math/rand"
	"os"
	"testing"

	"github.com/Fantom-foundation/lachesis-base/abft/dagidx"
	"github.com/Fantom-foundation/lachesis-base/hash"
	"github.com/Fantom-foundation/lachesis-base/inter/dag"
	"github.com/Fantom-foundation/lachesis-base/inter/dag/tdag"
	"github.com/Fantom-foundation/lachesis-base/inter/idx"
	"github.com/Fantom-foundation/lachesis-base/inter/pos"
)

type qmSeq struct {
	s    idx.Event
	fork bool
}

func (s qmSeq) Seq() idx.Event       { return s.s }
func (s qmSeq) IsForkDetected() bool { return s.fork }

type qmVec []qmSeq

func (v qmVec) Size() int                     { return len(v) }
func (v qmVec) Get(i idx.Validator) dagidx.Seq { return v[i] }

type qmIndex struct{ vecs map[hash.Event]qmVec }

func (x *qmIndex) GetMergedHighestBefore(id hash.Event) dagidx.HighestBeforeSeq { return x.vecs[id] }

const qmFork = idx.Event(1<<31 - 2) // math.MaxUint32/2 - 1

func qmVal(s qmSeq) idx.Event {
	if s.fork {
		return qmFork
	}
	return s.s
}

// the definition: largest s such that the validators whose latest observation of v is >= s hold a quorum
func qmMedian(latest [][]idx.Event, weights []pos.Weight, quorum pos.Weight, v int) idx.Event {
	best := idx.Event(0)
	for _, cand := range latest {
		s := cand[v]
		var w pos.Weight
		for o := range latest {
			if latest[o][v] >= s {
				w += weights[o]
			}
		}
		if w >= quorum && s > best {
			best = s
		}
	}
	return best
}

func qmCheck(t *testing.T, weights []pos.Weight, creators []int, clocks []qmVec) {
	n := len(weights)
	b := pos.NewBuilder()
	for i, w := range weights {
		b.Set(idx.ValidatorID(i+1), w)
	}
	vals := b.Build()
	// canonical index of validator i+1
	ix := make([]int, n)
	for i := range weights {
		ix[i] = int(vals.GetIdx(idx.ValidatorID(i + 1)))
	}
	di := &qmIndex{vecs: map[hash.Event]qmVec{}}
	diff := func(median, current, update idx.Event, _ idx.Validator) Metric {
		return Metric(median)*1000003 + Metric(current)*1009 + Metric(update)
	}
	h := NewQuorumIndexer(vals, di, diff)
	latest := make([][]idx.Event, n) // by canonical index of the observer
	for i := range latest {
		latest[i] = make([]idx.Event, n)
	}
	wByIdx := make([]pos.Weight, n)
	for i, w := range weights {
		wByIdx[ix[i]] = w
	}
	self := make([]idx.Event, n)
	for k, c := range creators {
		e := &tdag.TestEvent{}
		e.SetCreator(idx.ValidatorID(c + 1))
		var id [24]byte
		id[0], id[1] = byte(k+1), 0x33
		e.SetID(id)
		di.vecs[e.ID()] = clocks[k]
		selfEvent := c == 0
		h.ProcessEvent(dag.Event(e), selfEvent)
		for v := 0; v < n; v++ {
			latest[ix[c]][v] = qmVal(clocks[k][v])
			if selfEvent {
				self[v] = qmVal(clocks[k][v])
			}
		}
		med := h.GetGlobalMedianSeqs()
		for v := 0; v < n; v++ {
			if want := qmMedian(latest, wByIdx, vals.Quorum(), v); med[v] != want {
				t.Fatalf("weights %v creators %v clocks %v: after event %d the median of validator index %d is %d, definition gives %d", weights, creators, clocks, k, v, med[v], want)
			}
		}
		var want Metric
		for v := 0; v < n; v++ {
			want += diff(qmMedian(latest, wByIdx, vals.Quorum(), v), self[v], qmVal(clocks[k][v]), idx.Validator(v))
		}
		if got := h.GetMetricOf(e.ID()); got != want {
			t.Fatalf("weights %v creators %v clocks %v: metric of event %d is %d, defined sum is %d", weights, creators, clocks, k, got, want)
		}
	}
}

func TestVerifBoundedQuorumMedian(t *testing.T) {
	entries := []qmSeq{{0, false}, {1, false}, {2, false}, {0, true}}
	maxLen, samples := 2, 30000
	if os.Getenv("VERIF_TIER") == "thorough" {
		maxLen, samples = 3, 300000
	}
	var allVecs []qmVec
	for a := range entries {
		for b := range entries {
			for c := range entries {
				allVecs = append(allVecs, qmVec{entries[a], entries[b], entries[c]})
			}
		}
	}
	for _, weights := range [][]pos.Weight{{1, 1, 1}, {2, 1, 1}} {
		var rec func(creators []int, clocks []qmVec)
		rec = func(creators []int, clocks []qmVec) {
			if len(creators) > 0 {
				qmCheck(t, weights, creators, clocks)
			}
			if len(creators) == maxLen {
				return
			}
			for c := 0; c < 3; c++ {
				for _, v := range allVecs {
					rec(append(append([]int{}, creators...), c), append(append([]qmVec{}, clocks...), v))
				}
			}
		}
		if maxLen <= 2 {
			rec(nil, nil)
		} else {
			// full depth only for the last event (prefixes are covered by the shorter sequences)
			rec(nil, nil)
		}
	}
	seed := int64(1)
	r := rand.New(rand.NewSource(seed))
	for s := 0; s < samples; s++ {
		n := 4 + r.Intn(5)
		creators := make([]int, n)
		clocks := make([]qmVec, n)
		for k := range creators {
			creators[k] = r.Intn(4)
			v := make(qmVec, 4)
			for j := range v {
				switch r.Intn(5) {
				case 0:
					v[j] = qmSeq{0, true}
				default:
					v[j] = qmSeq{idx.Event(r.Intn(4)), false}
				}
			}
			clocks[k] = v
		}
		qmCheck(t, []pos.Weight{3, 2, 1, 1}, creators, clocks)
	}
}
