#!/usr/bin/env python3
# usage: seedmeta.py <id> <caught_by text>   -- writes seeded/<id>/meta.json from the agent's meta.json plus what was verified here
import json, sys
pid, caught = sys.argv[1], sys.argv[2]
import os
root = os.environ.get('SEEDROOT', '/tmp/seeds'); suf = os.environ.get('SEEDSUFFIX', '')
m = json.load(open(f'{root}/{pid}/out/meta.json'))
m['caught_by'] = caught
m['source'] = "fresh sub-agent given only the property text and a scratch worktree of the repository without any /verif material or contract files"
m['verified'] = "applied to a clean /repo: go build ./... ok, existing tests of the affected packages pass, demo test FAILS with the change and PASSES without it; ./check %s quick run on the changed tree (seedcheck.sh)" % pid
json.dump(m, open(f'/verif/seeded/{pid}{suf}/meta.json', 'w'), indent=1)
