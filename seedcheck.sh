#!/bin/bash
# usage: seedcheck.sh <id> <pkgdir> <TestName>   -- verifies a seeded change from /tmp/seeds/<id>/out and runs ./check on it
id=$1; pkg=$2; tn=$3
export GOFLAGS=-mod=mod GOPROXY=off GOSUMDB=off GOTOOLCHAIN=local
out=${SEEDROOT:-/tmp/seeds}/$id/out; sd=/verif/seeded/$id${SEEDSUFFIX:-}; mkdir -p $sd
cp $out/patch.diff $out/demo_test.go $sd/ 2>/dev/null
cd /repo || exit 1
git diff --quiet || { echo "repo dirty"; exit 1; }
git apply --check $sd/patch.diff || { echo "PATCH DOES NOT APPLY"; exit 1; }
git apply $sd/patch.diff
b=$(go build ./... 2>&1 | tail -3)
t=$(go test -vet=off -count=1 ./$pkg/... 2>&1 | grep -v "no test files" | tail -3)
cp $sd/demo_test.go $pkg/zz_seed_demo_test.go
dw=$(go test -vet=off -count=1 -run "$tn" ./$pkg/ 2>&1 | tail -2 | tr '\n' ' ')
rm -f $pkg/zz_seed_demo_test.go
cd /verif && chk=$(./check $id quick 2>&1 | grep -E "^VIOLATION|^FAILED|discharged" | cut -c1-220)
code=$?
cd /repo && git checkout -- . 
git -C /verif checkout -- evidence/$id.json 2>/dev/null
cp $sd/demo_test.go $pkg/zz_seed_demo_test.go
dwo=$(go test -vet=off -count=1 -run "$tn" ./$pkg/ 2>&1 | tail -1)
rm -f $pkg/zz_seed_demo_test.go
git status --short | grep -v "^??" 
echo "== $id build:[$b] tests:[$t]"
echo "   demo with change: $dw"
echo "   demo without: $dwo"
echo "   check: $chk"
