#!/bin/sh
# builds /verif/bin/govc offline
cd /verif/engine && GOFLAGS=-mod=mod GOPROXY=off GOSUMDB=off GOTOOLCHAIN=local go build -o ../bin/govc ./cmd/govc
