#!/usr/bin/env python3
# Generates MANIFEST.json from claims/*.json and manifest_meta.json (kept by hand).
import json, glob, os, subprocess
meta = json.load(open('/verif/manifest_meta.json'))
for f in sorted(glob.glob('/verif/meta/*.json')):
    meta[os.path.basename(f)[:-5]] = json.load(open(f))
props = [json.loads(l) for l in open('/verif/properties.jsonl')]
checks, na = [], []
for p in props:
    pid = p['id']
    cf = f'/verif/claims/{pid}.json'
    m = meta.get(pid, {})
    if os.path.exists(cf) and m.get('claimed', True) and 'level_text' in m:
        checks.append({
            "property_id": pid,
            "quick_cmd": f"./check {pid} quick",
            "thorough_cmd": f"./check {pid} thorough",
            "evidence_file": f"/verif/evidence/{pid}.json",
            "replay_cmd_template": "./check --replay {path}",
            "engine": "govc",
            "level_claimed": {"category": "proof", "text": m['level_text'], "design_ref": m.get('design_ref', f"DESIGN.md section 9, {pid}")},
            "level_note": m['level_note'],
            "technique": m.get('technique', "contract-based deductive verification: weakest-precondition VCs generated from go/ssa of the real functions, contracts in verif_contracts.go, discharged by z3/cvc5"),
        })
    else:
        na.append({"property_id": pid, "reason": m.get('na_reason', 'contracts for this property are not yet discharged; not claimed')})
commits = subprocess.run(['git','-C','/repo','log','--format=%H %s'],capture_output=True,text=True).stdout.strip().split('\n')
hook_commits = [c.split()[0] for c in commits if ' verif:' in c]
man = {
 "version": 1,
 "setup_cmd": "./build.sh",
 "hooks": {
  "guard": "verif",
  "enable": "contracts are //@ comment lines in verif_contracts.go files (//go:build verif, no code); the VC generator reads them as text, nothing is compiled in",
  "baseline_off_cmd": meta['_baseline_off_cmd'],
  "source_commits": hook_commits,
  "add_only": True
 },
 "engines": [{"name": "govc", "path": "/verif/engine", "serves_properties": [c['property_id'] for c in checks],
   "kind_free_text": "deductive verifier built here: VC generation (weakest preconditions by symbolic execution of go/ssa, modular calls, loop invariants, frames, ghost state, lemmas) + SMT portfolio z3-new/z3/cvc5"}],
 "checks": checks,
 "not_applicable": na,
 "notes": meta.get('_notes','')
}
json.dump(man, open('/verif/MANIFEST.json','w'), indent=1)
print(len(checks), "checks;", len(na), "not applicable")
