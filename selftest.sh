#!/bin/bash
# Must-fail corpus: every stored seeded change (seeded/<id>[-2]/patch.diff) is applied to a scratch worktree of /repo
# (HEAD, i.e. with the committed contract files) and the property's quick check is run against that tree with a
# scratch evidence/replay directory. Every one must exit 1 with a VIOLATION line, except those whose meta.json says
# MISSED.  Run after every engine change:   ./selftest.sh [id-pattern]      (about 30-40 minutes for all)
# Nothing is left behind: worktrees and scratch directories are removed as each case finishes.
export GOFLAGS=-mod=mod GOPROXY=off GOSUMDB=off GOTOOLCHAIN=local
cd /verif || exit 2
[ -x bin/govc ] || ./build.sh || exit 2
pat=${1:-.}
root=$(mktemp -d /var/tmp/verif_selftest.XXXXXX)
ok=0; bad=0
for sd in seeded/*/; do
  name=$(basename $sd)
  echo "$name" | grep -q -- "$pat" || continue
  id=${name%-[0-9]}
  [ -f $sd/patch.diff ] || continue
  d=$root/$name; mkdir -p $d/verif/evidence $d/verif/replays
  for x in contracts claims bounded known_findings.json; do ln -s /verif/$x $d/verif/$x; done
  git -C /repo worktree add --detach $d/repo HEAD -q 2>/dev/null || { echo "$name: cannot create worktree"; bad=$((bad+1)); continue; }
  if ! git -C $d/repo apply $PWD/$sd/patch.diff 2>/dev/null; then
    echo "$name: PATCH DOES NOT APPLY (the code under it changed, e.g. by a later fix)"; res=skip
  else
    out=$(bin/govc check --claim claims/$id.json --tier quick --repo $d/repo --verif $d/verif 2>&1); code=$?
    nv=$(echo "$out" | grep -c "^VIOLATION property=$id ")
    first=$(echo "$out" | grep "^FAILED" | head -1 | cut -c1-150)
    expect=caught
    grep -q '"caught_by": "MISSED[,:;]' $sd/meta.json 2>/dev/null && expect=missed   # "MISSED at first ..." means caught now
    if [ $code = 1 ] && [ $nv -gt 0 ]; then res=caught; else res=missed; fi
    if [ $res = $expect ]; then ok=$((ok+1)); echo "$name: $res ($nv violations) $first"; else bad=$((bad+1)); echo "$name: UNEXPECTED $res (expected $expect, exit $code) $first"; fi
  fi
  git -C /repo worktree remove --force $d/repo 2>/dev/null
  rm -rf $d
done
rmdir $root 2>/dev/null
git -C /repo worktree prune
echo "selftest: $ok as expected, $bad unexpected"
[ $bad = 0 ]
